"""C03 - rates conserve the texture manifold (engine A: exhaustive product of sharp
alphabets, invariants evaluated on every point)."""

import itertools

import numpy as np

from mc import alph
from mc.runner import digest, empty_result
from props import _rates as R
from ref import drex_ref

PID = "C03"
RULE = (
    "full cross product fabric(6) x regime(2) x velocity-gradient alphabet x volume-vector "
    "letters x orientation sets (whole 408-letter orbit-closed alphabet as one texture; the 24 "
    "cube rotations alone = exact zero invariants; tilings to n_grains 1..1e5 incl. the powers of two 4096, 8192, 16384, 65536) x scale letters "
    "(normalised, 1e-12, 1e6, raw) x parameter settings (<=1 deviation); each case calls "
    "derivatives for 6 (M*, phi) settings; plus fabric x regime x the 15 whole-number gradients x the "
    "24 cube rotations x 3 one-grain-holds-all volume vectors with the orientations / volumes / "
    "gradients / everything typed int64: bit-identical to the float64 call. A case is non-trivial when >=2 grains have distinct "
    "non-zero strain energies and the gradient is not zero; distinct = distinct case key."
)
ASSUMPTIONS = [
    "orientation inputs are orthonormal to rounding; velocity-gradient scales within [1e-12, 1e6]",
    "strain energies used in the growth-sign clause come from the reference model (ref/drex_ref.py) "
    "for resolved grains and are taken as 0 for grains on which no slip can be resolved",
    "numpy einsum/eigvalsh are trusted",
]
BOUND = {
    "quick": "n_grains <= 1e5 (tilings on 2 gradients), parameter deviations <= 1, gradient scales {1,1e-12,1e6,raw}",
    "thorough": "as quick with 4 seeded generic rotations (696 orientation letters), all 24 cube conjugates of the generic gradients, parameter deviations <= 2",
}

MPHI = [(125.0, 1.0), (0.0, 1.0), (1.0, 1.0), (200.0, 1.0), (125.0, 0.3), (125.0, 1e-3)]
VOLS = ["uniform", "dominant", "onezero", "geometric", "allbutone", "sparse"]
SCALE_VGS = ["ss_xz", "ps_xy+", "ax_z-", "sub_yx", "rigid_xz", "gen0", "gens_tr"]
TILES = [1, 2, 3, 10, 100, 1000, 4096, 8192, 10000, 16384, 65536, 100000]


def ALPHABETS():
    return {
        "orientations": len(alph.ORI),
        "cube": len(alph.CUBE),
        "velocity_gradients": len(alph.VG),
        "volumes": len(VOLS),
        "mphi": len(MPHI),
        "closure_generator_applications": alph.CLOSURE_APPS,
    }


WHOLE_VGS = [k for k in ("ss_xz", "ss_xy", "ss_yx", "ss_yz", "ss_zx", "ss_zy", "ps_xy+", "ps_xy-", "ps_xz+", "ps_xz-", "ps_yz+", "ps_yz-", "rigid_xy", "rigid_xz", "rigid_yz")]
DT_VARIANTS = ["A", "f", "DL", "all"]


def _dtype_args(which, A, f, D, L):
    """The same whole-number arrays, some of them typed int64 (as written with integer literals)."""
    i = lambda a: np.rint(a).astype(np.int64)  # noqa
    return (
        i(A) if which in ("A", "all") else A.copy(),
        i(f) if which in ("f", "all") else f.copy(),
        i(D) if which in ("DL", "all") else D.copy(),
        i(L) if which in ("DL", "all") else L.copy(),
    )


def _call_raw(rg, ph, fb, A, f, D, L):
    return R.core().derivatives(rg, ph, fb, len(A), A, f, D, L, np.zeros((3, 3)), 1.5, 3.5, 5.0, 125.0, 1.0)


def warmup():
    R.warm()
    # compile the integer-typed signatures once, in the parent
    A = np.array(list(alph.CUBE.values()))
    f = np.zeros(len(A))
    f[-1] = 1.0
    L = alph.VG["ss_xz"]
    for which in DT_VARIANTS:
        for rg in (4, 6):
            try:
                _call_raw(rg, 0, 0, *_dtype_args(which, A, f, (L + L.T) / 2, L))
            except Exception:
                pass


def run_dtype(key):
    """Whole-number inputs typed int64 are the same inputs: bit-identical rates (seeds C02f, C03f)."""
    res = empty_result()
    ph, fb = alph.FABRICS[key["fab"]]
    rg = alph.DISL[key["reg"]]
    A = np.array(list(alph.CUBE.values()))
    n = len(A)
    L = np.array(alph.VG[key["vg"]], float)
    D = (L + L.T) / 2  # whole numbers for these letters (shear entries 2, spins +-1)
    outs = []
    for hot in (n - 1, 0, 7):
        f = np.zeros(n)
        f[hot] = 1.0
        res["n"] += 1
        base = _call_raw(rg, ph, fb, A.copy(), f.copy(), D.copy(), L.copy())
        outs += [np.asarray(base[0]), np.asarray(base[1])]
        for which in DT_VARIANTS:
            res["n"] += 1
            res["trans"] += 1
            res["clauses"]["dtype_irrelevant"] = res["clauses"].get("dtype_irrelevant", 0) + 1
            k = dict(key, typed=which, hot=hot)
            try:
                got = _call_raw(rg, ph, fb, *_dtype_args(which, A, f, D, L))
            except Exception as e:
                res["viol"].append({"clause": "dtype_irrelevant", "key": k, "detail": {"exception": type(e).__name__, "msg": str(e)[:200]}})
                continue
            dA = float(np.abs(np.asarray(got[0], float) - base[0]).max())
            df = float(np.abs(np.asarray(got[1], float) - base[1]).max())
            if not (dA <= 1e-12 and df <= 1e-12):
                res["viol"].append({"clause": "dtype_irrelevant", "key": k, "detail": {"max_rate_diff": dA, "max_volume_rate_diff": df}})
        res["states"] += 1
    if np.abs(D).max() > 0:
        res["nontrivial"].append(digest(key))
    res["outcomes"].append(digest(*[np.round(o, 9) for o in outs]))
    res["obs"] = digest(*outs)
    res["sample"] = {"case": key}
    return res


def gen_cases(tier, seed):
    keys = []
    prms = [n for n, _ in alph.param_settings(0)]
    dev = [n for n, d in alph.param_settings(1 if tier == "quick" else 2) if d["M"] == 125.0 and d["phi"] == 1.0]
    for fab, reg in itertools.product(alph.FABRICS, alph.DISL):
        for vg in alph.VG:
            for vol in VOLS:
                for oset in ("ORI", "CUBE"):
                    keys.append(dict(fab=fab, reg=reg, vg=vg, scale="1", vol=vol, set=oset, prm=prms[0]))
    # parameter deviations (p, n, lambda) on a gradient core
    for fab, reg in itertools.product(alph.FABRICS, alph.DISL):
        for vg in SCALE_VGS:
            for prm in dev[1:]:
                for oset in ("ORI", "CUBE"):
                    keys.append(dict(fab=fab, reg=reg, vg=vg, scale="1", vol="dominant", set=oset, prm=prm))
    # un-normalised / tiny / huge gradients
    for fab, reg in itertools.product(alph.FABRICS, alph.DISL):
        for vg in SCALE_VGS:
            for sc in ("1e-12", "1e6", "raw"):
                for oset in ("ORI", "CUBE"):
                    keys.append(dict(fab=fab, reg=reg, vg=vg, scale=sc, vol="dominant", set=oset, prm=prms[0]))
    # grain counts 1 .. 1e5
    for fab in alph.FABRICS:
        for vg in ("ss_xz", "gen0"):
            for n in TILES:
                for vol in ("uniform", "onezero"):
                    keys.append(dict(fab=fab, reg="disl", vg=vg, scale="1", vol=vol, set=f"tile{n}", prm=prms[0]))
    # single grains: every cube rotation alone under every simple / pure shear
    for fab in alph.FABRICS:
        for vg in alph.VG:
            if vg.startswith(("ss_", "ps_", "ax_")):
                keys.append(dict(fab=fab, reg="disl", vg=vg, scale="1", vol="uniform", set="singles", prm=prms[0]))
    # whole-number inputs typed with integer literals
    for fab, reg in itertools.product(alph.FABRICS, alph.DISL):
        for vg in WHOLE_VGS:
            keys.append(dict(part="dtype", fab=fab, reg=reg, vg=vg))
    return keys


def get_set(name):
    names = list(alph.ORI)
    if name == "ORI":
        sel = names
    elif name == "CUBE":
        sel = list(alph.CUBE)
    elif name.startswith("tile"):
        n = int(name[4:])
        # stride through the alphabet so that small tilings mix cube and generic letters
        stride = 37
        sel = [names[(i * stride) % len(names)] for i in range(n)]
    else:
        raise KeyError(name)
    return sel, np.array([alph.ORI[k] for k in sel])


def gradient(key):
    raw = alph.VG[key["vg"]]
    if key["scale"] == "raw":
        return raw.copy(), (raw + raw.T) / 2
    L, D = alph.normalised(raw)
    s = float(key["scale"])
    return L * s, D * s


def run_case(key):
    if key.get("part") == "dtype":
        return run_dtype(key)
    if key["set"] == "singles":
        return run_singles(key)
    res = empty_result()
    ph, fb = alph.FABRICS[key["fab"]]
    rg = alph.DISL[key["reg"]]
    names, A = get_set(key["set"])
    n = len(names)
    f = alph.volumes(key["vol"], n)
    L, D = gradient(key)
    prm = alph.param_by_name(key["prm"])
    p, nn, lam = prm["p"], prm["n"], prm["lam"]
    smax = np.abs(np.linalg.eigvalsh(D)).max()
    viol = res["viol"]
    cl = res["clauses"]

    def V(clause, detail, **extra):
        k = dict(key)
        k.update(extra)
        viol.append({"clause": clause, "key": k, "detail": detail})

    out = {}
    for M, phi in MPHI:
        res["n"] += 1
        cl["noraise"] = cl.get("noraise", 0) + 1
        try:
            out[(M, phi)] = R.call(rg, ph, fb, A, f, D, L, p, nn, lam, M, phi)
        except Exception as e:  # the property says: never raises
            bad = []
            for i in range(n):
                try:
                    R.call(rg, ph, fb, A[i : i + 1], np.ones(1), D, L, p, nn, lam, M, phi)
                except Exception:
                    bad.append(names[i])
            V(
                "noraise",
                {"exception": type(e).__name__, "n_raising_alone": len(bad), "grains": bad[:8]},
                M=M,
                phi=phi,
                exc=type(e).__name__,
                grain=bad[0] if bad else "(collective)",
            )
            out[(M, phi)] = None
    res["states"] = 1
    res["trans"] = len(MPHI)
    # the solver is a function of its arguments: the same call again, after the other
    # (M*, phi) calls, must return bit-identical arrays (no scratch state between calls)
    if out[MPHI[0]] is not None:
        cl["repeat_call_identical"] = cl.get("repeat_call_identical", 0) + 1
        try:
            again = R.call(rg, ph, fb, A, f, D, L, p, nn, lam, *MPHI[0])
            if not (np.array_equal(again[0], out[MPHI[0]][0], equal_nan=True) and np.array_equal(again[1], out[MPHI[0]][1], equal_nan=True)):
                V("repeat_call_identical", {"max_dA": float(np.nanmax(np.abs(again[0] - out[MPHI[0]][0]))), "max_df": float(np.nanmax(np.abs(again[1] - out[MPHI[0]][1])))}, grain="(all)")
        except Exception as e:
            V("repeat_call_identical", {"exception": type(e).__name__}, grain="(call)")

    # reference energies (scale only / sign clause)
    if smax > 0:
        with np.errstate(all="ignore"):
            ref = drex_ref.rates(ph, fb, rg, A, f, D, L, p, nn, lam, 125.0, 1.0)
        act = ref["act"] / smax  # the exclusion zone is stated for the normalised gradient
    else:
        act = np.zeros(n)
        ref = None
    # resolved = outside C02's exclusion zone, both for the normalised gradient and for the
    # (possibly un-normalised, tiny) gradient actually passed: the solver documents its
    # inputs as non-dimensional, so absolute guards on raw invariants are legitimate and
    # grains inside them are treated as ambiguous (energy taken from the solver's kernel)
    resolved = (act >= 1e-9) & (act * smax >= 1e-9)

    base = out[MPHI[0]]
    obs_parts = []
    for (M, phi), o in out.items():
        if o is None:
            continue
        dA, df = o
        obs_parts += [dA, df]
        kk = dict(M=M, phi=phi)
        # shapes / finiteness
        cl["finite"] = cl.get("finite", 0) + 1
        if dA.shape != (n, 3, 3) or df.shape != (n,):
            V("finite", {"shape_dA": list(dA.shape), "shape_df": list(df.shape)}, **kk, grain="(shape)")
            continue
        badA = ~np.isfinite(dA).all(axis=(1, 2))
        badf = ~np.isfinite(df)
        if badA.any() or badf.any():
            i = int(np.argmax(badA | badf))
            V("finite", {"n_bad": int((badA | badf).sum()), "dA": dA[i], "df": df[i]}, **kk, grain=names[i])
            continue
        # skew spin: A^T dA must be skew
        cl["skew"] = cl.get("skew", 0) + 1
        S = np.einsum("gpi,gpj->gij", A, dA)
        sym = np.abs(S + np.transpose(S, (0, 2, 1))).max(axis=(1, 2))
        scaleA = np.maximum(np.abs(dA).max(axis=(1, 2)), 1e-300)
        bad = sym > 1e-12 * np.maximum(scaleA, smax * 1e-3)
        if bad.any():
            i = int(np.argmax(sym / scaleA))
            V("skew", {"n_bad": int(bad.sum()), "sym_part": float(sym[i]), "rate": float(scaleA[i])}, **kk, grain=names[i])
        # zero net volume change
        cl["sumzero"] = cl.get("sumzero", 0) + 1
        tot = abs(df.sum())
        if ref is not None:
            Eref = np.where(np.isfinite(ref["E"]), ref["E"], 0.0)
            escale = phi * M * float(np.sum(f * np.abs(Eref)) + (f * np.abs(Eref)).max())
        else:
            escale = 0.0
        if rg == 6:
            escale *= 0.3
        if tot > 1e-12 * (np.abs(df).sum() + escale) + 1e-300:
            V("sumzero", {"sum": float(df.sum()), "sum_abs": float(np.abs(df).sum()), "scale": escale}, **kk, grain="(all)")
        # zero-volume grains
        cl["zerovol"] = cl.get("zerovol", 0) + 1
        z = (f == 0) & (df != 0)
        if z.any():
            i = int(np.argmax(z))
            V("zerovol", {"n_bad": int(z.sum()), "df": float(df[i])}, **kk, grain=names[i])
        # vanish at zero mobility
        if M == 0.0:
            cl["zeromob"] = cl.get("zeromob", 0) + 1
            if np.any(df != 0):
                i = int(np.argmax(np.abs(df)))
                V("zeromob", {"df": float(df[i])}, **kk, grain=names[i])
        # linear in M and phi
        if base is not None and (M, phi) != MPHI[0] and M != 0.0:
            cl["linear"] = cl.get("linear", 0) + 1
            M0, phi0 = MPHI[0]
            lhs = df * (M0 * phi0)
            rhs = base[1] * (M * phi)
            err = np.abs(lhs - rhs)
            tol = 1e-12 * (np.abs(lhs) + np.abs(rhs)) + 1e-12 * escale * (M0 * phi0) + 1e-300
            if np.any(err > tol):
                i = int(np.argmax(err - tol))
                V("linear", {"lhs": float(lhs[i]), "rhs": float(rhs[i])}, **kk, grain=names[i])

    # growth sign (M*=125, phi=1)
    if base is not None and ref is not None and np.isfinite(base[1]).all():
        df = base[1]
        E = np.where(resolved & np.isfinite(ref["E"]), ref["E"], 0.0)
        # grains in the ambiguous zone 0 < act < 1e-9: ask the implementation's own kernel
        amb = (~resolved) & (act > 0)
        if amb.any():
            fn = getattr(R.core(), "_get_rotation_and_strain", None)
            for i in np.nonzero(amb)[0]:
                try:
                    E[i] = fn(ph, fb, A[i].copy(), D.copy(), L.copy(), p, nn, lam)[1] if fn else np.nan
                except Exception:
                    E[i] = np.nan
        Em = np.nansum(f * E)
        margin = 1e-9 * max(np.nanmax(np.abs(E)), 1e-300)
        chk = (f > 0) & np.isfinite(E) & (np.abs(Em - E) > margin)
        if np.isnan(E).any():
            chk &= False  # mean not defined by the model -> nothing to assert
        cl["growsign"] = cl.get("growsign", 0) + int(chk.sum())
        bad = chk & (np.sign(df) != np.sign(Em - E))
        if bad.any():
            i = int(np.argmax(bad))
            form = "other"
            with np.errstate(all="ignore"):
                r3 = drex_ref.rates(ph, fb, rg, A, f, D, L, p, nn, lam, 125.0, 1.0, energy_systems=(0, 1, 2))
            E3 = np.where(np.isfinite(r3["E"]), r3["E"], 0.0)
            if np.all(np.sign(df[chk]) == np.sign((np.sum(f * E3) - E3)[chk])):
                form = "energy_sum_systems_0_2"
            V(
                "growsign",
                {"n_bad": int(bad.sum()), "df": float(df[i]), "Emean_minus_E": float(Em - E[i])},
                grain=names[i],
                form=form,
            )
        ne = len(np.unique(np.round(E[E > 0], 9)))
        if ne >= 2 and smax > 0:
            res["nontrivial"].append(digest(key))
        res["outcomes"].append(digest(np.round(np.abs(df).sum(), 6), int(chk.sum())))
    res["obs"] = digest(*obs_parts)
    res["notes"]["unresolved_grains"] = int((~resolved).sum())
    res["sample"] = {"case": key, "n_grains": n, "unresolved": int((~resolved).sum())}
    return res


def run_singles(key):
    """Every cube rotation as a one-grain aggregate (n_grains = 1)."""
    res = empty_result()
    ph, fb = alph.FABRICS[key["fab"]]
    rg = alph.DISL[key["reg"]]
    L, D = gradient(key)
    obs = []
    for gname, g in alph.CUBE.items():
        res["n"] += 1
        res["trans"] += 1
        res["clauses"]["noraise"] = res["clauses"].get("noraise", 0) + 1
        try:
            dA, df = R.call(rg, ph, fb, g[None], np.ones(1), D, L)
        except Exception as e:
            k = dict(key)
            k.update(grain=gname, exc=type(e).__name__, M=125.0, phi=1.0)
            res["viol"].append({"clause": "noraise", "key": k, "detail": {"exception": type(e).__name__}})
            continue
        obs += [dA, df]
        res["clauses"]["finite"] = res["clauses"].get("finite", 0) + 1
        ok = np.isfinite(dA).all() and np.isfinite(df).all()
        S = g.T @ dA[0]
        if not ok or np.abs(S + S.T).max() > 1e-12 or df[0] != 0.0:
            k = dict(key)
            k.update(grain=gname)
            res["viol"].append({"clause": "single", "key": k, "detail": {"dA": dA, "df": df}})
        res["outcomes"].append(digest(np.round(dA, 9)))
    res["states"] = len(alph.CUBE)
    res["obs"] = digest(*obs)
    res["sample"] = {"case": key, "n_grains": 1}
    return res
