"""C08 - multiphase: each phase evolves independently with its own volume factor
(engine B twins + engine C: all interleavings of update calls across minerals)."""

import copy
import itertools

import numpy as np

from mc import alph
from mc.runner import digest, empty_result
from props import _hist as H

PID = "C08"
RULE = (
    "(a) own volume factor: roots fabric(6) x regime(2) x assemblage ordering(2) x fraction pair(6 incl. both end members) "
    "x <=1 deviation over (texture, volumes, n_grains, parameter set); ALL update sequences to depth 2 "
    "with a lock-step twin = the same mineral run single-phase with M* replaced by phi_own.M*; "
    "the same with the regime supplied by a get_regime callable to minerals whose stored regime is a null one; "
    "(b) twin = assemblage and fraction lists permuted together; (c) pydrex.update_all with the "
    "mineral list in every order (2 and 3 minerals; dislocation and diffusion regimes), every mineral and the returned F compared, "
    "and against every mineral updated on its own from the same starting F at rtol 1e-10 (bound 1e-6); "
    "(d) ALL interleavings of the per-mineral update sequences of 2 minerals (6) and 3 minerals (90), "
    "2 updates each, against sequential execution: bit-identical per mineral, including minerals "
    "that were handed the SAME initial array objects; (e) two minerals built and driven identically "
    "are bit-identical after every update, both as a deep copy and as two constructor calls with "
    "identical arguments over seed(6 incl. 0, int64(0), none) x given/default orientations x "
    "given/default fractions x n_grains(2) x fabric(6), all 6 schedules of 2+2 updates. Non-trivial: phi_own not in {0.5, 1}, texture changed; "
    "distinct = reached state / schedule."
)
ASSUMPTIONS = [
    "(a)-(c) use the statement-level accumulated ODE bound (a rounding-level change of phi.M* may change solver step decisions); (d),(e) are exact (bitwise)",
    "grains touching the discontinuous sliding threshold during an update are gated (see _hist.twin_explore)",
    "the volume_fraction argument seen at the derivatives seam is reported (observer)",
]
BOUND = {"quick": "depth 2; 2 and 3 minerals x 2 updates (6 + 90 interleavings) x 4 flow pairs", "thorough": "depth 3; 3 minerals x 2 updates and 2 minerals x 3 updates (20 interleavings)"}

FRACS = [(0.7, 0.3), (0.5, 0.5), (0.3, 0.7), (0.1, 0.9), (1.0, 0.0), (0.0, 1.0)]
PRMS = ["default", "M200", "M10", "chi0"]


def ALPHABETS():
    return {"fraction_pairs": len(FRACS), "update_letters": len(H.STEP_LETTERS), "interleavings_2x2": 6, "interleavings_3x2": 90}


def warmup():
    H.warm()


def gen_cases(tier, seed):
    keys = []
    depth = 2 if tier == "quick" else 3
    roots = H.root_keys(tier, ["disl", "yield"], dev=1, prms=PRMS)
    for k in roots:
        for fi, fr in enumerate(FRACS):
            for order in ("own_first", "own_last"):
                # deviations: fraction pair and ordering deviate one at a time from (0.7,0.3)/own_first
                ndev = (fi != 0) + (order != "own_first") + sum(k[a] != d for a, d in (("tex", "random"), ("vol", "uniform"), ("ng", 5), ("prm", "default")))
                if ndev <= 1 or (fi != 0 and order != "own_first" and ndev <= 2):
                    keys.append(dict(k, part="single", frac=fi, order=order, depth=depth))
                    keys.append(dict(k, part="perm", frac=fi, order=order, depth=depth))
    # the regime supplied by a get_regime callable (dislocation creep) to a mineral whose stored
    # regime is a non-recrystallising one (e.g. a pathline crossing out of a diffusion-creep
    # region): seed C08g, own fraction looked up under a guard on the STORED regime
    for fab in alph.FABRICS:
        for fi in (0, 2, 3):
            for order in ("own_first", "own_last"):
                for stored in ("diff", "minvisc"):
                    keys.append(dict(part="single", fab=fab, reg=stored, tex="random", vol="uniform", ng=5, prm="chi0", frac=fi, order=order, depth=depth, getreg="yield" if fi == 3 else "disl"))
    for fi in range(len(FRACS)):
        for nm in (2, 3):
            for flp in range(4):
                keys.append(dict(part="bulk", frac=fi, nmin=nm, flows=flp))
                keys.append(dict(part="bulk", frac=fi, nmin=nm, flows=flp, reg="diff"))
                keys.append(dict(part="interleave", frac=fi, nmin=nm, flows=flp, alias=0))
                keys.append(dict(part="interleave", frac=fi, nmin=nm, flows=flp, alias=1))
    # one params dictionary object shared by all updates and modified in place between them
    # (fraction pair, mobility) versus a fresh dictionary per update: hidden state keyed on
    # the identity of the dictionary would show (seed C08c)
    for fi in range(len(FRACS)):
        for nm in (2, 3):
            keys.append(dict(part="params_inplace", frac=fi, nmin=nm, flows=fi % 4))
    # clause (e) through the constructor: every combination of constructor arguments, two
    # minerals built from the SAME arguments (seed C08d: seed 0 treated as "no seed")
    for fab in alph.FABRICS:
        for sd in BUILD_SEEDS:
            for oi in (0, 1):
                for fi in (0, 1):
                    for ng in (2, 5):
                        keys.append(dict(part="built", fab=fab, seed=sd, ori=oi, fri=fi, ng=ng, flows=(ng + oi + fi) % 4))
    return keys


BUILD_SEEDS = ["0", "int64:0", "1", "8816", "4294967295", "none"]


def run_built(key):
    """Two (and three) minerals constructed from identical arguments, driven identically, all
    schedules of 2 updates each: bitwise equal after construction and after every update."""
    res = empty_result()
    pd = H.pd()
    ph, fb = alph.FABRICS[key["fab"]]
    n = key["ng"]
    sd = {"none": None, "int64:0": np.int64(0)}[key["seed"]] if key["seed"] in ("none", "int64:0") else int(key["seed"])
    if sd is None and not key["ori"]:
        # an unseeded random initial texture is not "built identically": only the shape is defined
        res["n"] = 1
        m = pd.Mineral(phase=ph, fabric=fb, regime=4, n_grains=n)
        res["clauses"]["unseeded_shape"] = 1
        if np.asarray(m.orientations[0]).shape != (n, 3, 3):
            H.V(res, key, "unseeded_shape", {"shape": list(np.asarray(m.orientations[0]).shape)})
        res["obs"] = digest(key)
        res["sample"] = {"case": key}
        return res

    def build():
        kw = dict(phase=ph, fabric=fb, regime=4, n_grains=n, seed=sd)
        if key["ori"]:
            kw["orientations_init"] = alph.texture("random", n)
        if key["fri"]:
            kw["fractions_init"] = alph.volumes("geometric", n)
        return pd.Mineral(**kw)

    prm = H.params_for(ph, "default")
    fls = [H.flow(x) for x in FLOW_PAIRS[key["flows"]]]
    cl = res["clauses"]
    for sched in interleavings([2, 2]):
        ms = [build(), build()]
        cl["built_identical_initial"] = cl.get("built_identical_initial", 0) + 1
        if not (np.array_equal(ms[0].orientations[0], ms[1].orientations[0]) and np.array_equal(ms[0].fractions[0], ms[1].fractions[0])):
            H.V(res, key, "built_identical_initial", {"dev": float(np.abs(np.asarray(ms[0].orientations[0]) - np.asarray(ms[1].orientations[0])).max())})
            break
        cl["seed_attribute_kept"] = cl.get("seed_attribute_kept", 0) + 1
        if not (ms[0].seed == ms[1].seed):
            res["notes"]["seed_attribute_differs"] = res["notes"].get("seed_attribute_differs", 0) + 1
        Fs = [H.f0("generic"), H.f0("generic")]
        done = [0, 0]
        for i in sched:
            k = done[i]
            res["n"] += 1
            res["trans"] += 1
            Fs[i] = H.update(ms[i], prm, Fs[i], fls[k], 0.3 * k, 0.3 * k + 0.3)
            done[i] += 1
        res["states"] += 1
        cl["built_identical_driven"] = cl.get("built_identical_driven", 0) + 1
        a = digest(np.array(ms[0].orientations), np.array(ms[0].fractions), Fs[0])
        b = digest(np.array(ms[1].orientations), np.array(ms[1].fractions), Fs[1])
        if a != b:
            H.V(res, key, "built_identical_driven", {"dev": float(np.abs(ms[0].orientations[-1] - ms[1].orientations[-1]).max())}, sched="".join(map(str, sched)))
        res["nontrivial"].append(digest(key, sched))
        res["outcomes"].append(a)
    res["obs"] = digest(*res["outcomes"])
    res["sample"] = {"case": key}
    return res


def assemblage(key, ph):
    other = 1 - ph
    fr = FRACS[key["frac"]]
    if key["order"] == "own_first":
        return [ph, other], [fr[0], fr[1]], fr[0]
    return [other, ph], [fr[1], fr[0]], fr[0]


def run_case(key):
    return {"single": run_twin, "perm": run_twin, "bulk": run_bulk, "interleave": run_interleave, "params_inplace": run_params_inplace, "built": run_built}[key["part"]](key)


def run_params_inplace(key):
    """Every schedule of 2 updates per mineral, where the k-th update of any mineral uses
    fraction pair k and mobility k: once with a fresh params dict per update, once with ONE
    dict object modified in place.  Results must be bit-identical."""
    res = empty_result()
    pd = H.pd()
    nm = key["nmin"]
    fls = [H.flow(x) for x in FLOW_PAIRS[key["flows"]]]
    pairs = [FRACS[key["frac"]], FRACS[(key["frac"] + 2) % len(FRACS)]]
    mobs = [125.0, 40.0]

    def fresh(k):
        p = H.params_for(0, "default", assemblage=[pd.MineralPhase.olivine, pd.MineralPhase.enstatite], fractions=pairs[k])
        p["gbm_mobility"] = mobs[k]
        return p

    scheds = interleavings([2] * nm)
    for sched in scheds:
        outs = []
        for mode in ("fresh", "inplace"):
            ms = make_minerals(key)
            Fs = [H.f0("generic") for _ in range(nm)]
            done = [0] * nm
            shared = fresh(0)
            for i in sched:
                k = done[i]
                if mode == "fresh":
                    prm = fresh(k)
                else:
                    shared["phase_fractions"] = tuple(pairs[k])
                    shared["gbm_mobility"] = mobs[k]
                    prm = shared
                res["n"] += 1
                res["trans"] += 1
                Fs[i] = H.update(ms[i], prm, Fs[i], fls[k], 0.3 * k, 0.3 * k + 0.3)
                done[i] += 1
            outs.append([digest(np.array(m.orientations), np.array(m.fractions), F) for m, F in zip(ms, Fs)])
        res["states"] += 1
        res["clauses"]["params_dict_identity_irrelevant"] = res["clauses"].get("params_dict_identity_irrelevant", 0) + 1
        if outs[0] != outs[1]:
            H.V(res, key, "params_dict_identity_irrelevant", {"minerals_differing": [i for i in range(nm) if outs[0][i] != outs[1][i]]}, sched="".join(map(str, sched)))
        res["nontrivial"].append(digest(key, sched))
        res["outcomes"] += outs[0]
    res["obs"] = digest(*res["outcomes"])
    res["sample"] = {"case": key, "schedules": len(scheds)}
    return res


def run_twin(key):
    res = empty_result()
    pd = H.pd()
    ph, fb = alph.FABRICS[key["fab"]]
    asm, fr, own = assemblage(key, ph)
    prm_a = H.params_for(ph, key["prm"], assemblage=[pd.MineralPhase(p) for p in asm], fractions=fr)
    if key["part"] == "single":
        prm_b = H.params_for(ph, key["prm"])
        prm_b["gbm_mobility"] = own * prm_a["gbm_mobility"]
    else:
        prm_b = H.params_for(ph, key["prm"], assemblage=[pd.MineralPhase(p) for p in asm[::-1]], fractions=fr[::-1])
    m, mt = H.build_mineral(key), H.build_mineral(key)
    F0 = H.f0("generic")
    root = H.State(m, F0)
    root.twin = {"m": mt, "F": F0.copy()}
    cl = res["clauses"]
    tagA, tagf = ("own_factor_texture", "own_factor_fractions") if key["part"] == "single" else ("perm_texture", "perm_fractions")

    def compare(parent, child, hist, clean):
        bound = H.ode_bound(child.N, child.strain)
        a, b = child.m, child.twin["m"]
        if clean.any():
            cl[tagA] = cl.get(tagA, 0) + int(clean.sum())
            dA = float(np.abs(b.orientations[-1] - a.orientations[-1])[clean].max())
            if not dA <= bound:
                H.V(res, key, tagA, {"dev": dA, "bound": bound}, hist=hist)
            res["notes"]["max_texture_dev"] = max(res["notes"].get("max_texture_dev", 0.0), dA if np.isfinite(dA) else 0.0)
        if clean.all():
            cl[tagf] = cl.get(tagf, 0) + 1
            df = float(np.abs(b.fractions[-1] - a.fractions[-1]).max())
            if not df <= bound:
                H.V(res, key, tagf, {"dev": df, "bound": bound, "own_fraction": own}, hist=hist)
            res["notes"]["max_fraction_dev"] = max(res["notes"].get("max_fraction_dev", 0.0), df if np.isfinite(df) else 0.0)
        cl["F_same"] = cl.get("F_same", 0) + 1
        dF = float(np.abs(child.twin["F"] - child.F).max() / max(1.0, np.abs(child.F).max()))
        if not dF <= bound:
            H.V(res, key, "F_same", {"dev": dF, "bound": bound}, hist=hist)
        ma = child.aux["mon"][0]
        if ma.seen_der:
            vf = {d[1] for d in ma.der if d[1] is not None}
            cl["seam_volume_fraction"] = cl.get("seam_volume_fraction", 0) + 1
            if vf and vf != {float(own)}:
                res["notes"]["seam_volume_fraction_not_own"] = res["notes"].get("seam_volume_fraction_not_own", 0) + 1
        if own not in (0.5, 1.0) and not np.array_equal(a.fractions[-1], a.fractions[-2]):
            res["nontrivial"].append(H.canon(child))

    skw = None
    if key.get("getreg"):
        rg = H.REGIMES[key["getreg"]]
        skw = dict(get_regime=lambda t, x, rg=rg: rg)
    obs = H.twin_explore(res, key, prm_a, prm_b, root, H.STEP_LETTERS, key["depth"], H.flow, H.flow, lambda t: t, compare, solver_kw=skw)
    res["outcomes"] += obs[:40]
    res["obs"] = digest(*obs)
    res["sample"] = {"case": key, "own_fraction": own, "states": res["states"], "transitions": res["trans"]}
    return res


FLOW_PAIRS = [("gen", "ss_xz"), ("time", "pos"), ("ps_xy", "gentr"), ("pos", "gen")]


def make_minerals(key, alias=False):
    """2 or 3 minerals: olivine A, enstatite, (olivine B as a second olivine-phase mineral)."""
    specs = [("olA", "random"), ("enAB", "cluster"), ("olB", "girdle")][: key["nmin"]]
    reg = key.get("reg", "disl")
    n = 5
    shared_A = alph.texture("random", n)
    shared_f = alph.volumes("geometric", n)
    out = []
    for fab, tex in specs:
        k = dict(fab=fab, reg=reg, tex=tex, vol="geometric", ng=n, prm="default")
        if alias:
            ph, fb = alph.FABRICS[fab]
            out.append(H.pd().Mineral(phase=ph, fabric=fb, regime=4, n_grains=n, fractions_init=shared_f, orientations_init=shared_A))
        else:
            out.append(H.build_mineral(k))
    return out


def bulk_params(key):
    pd = H.pd()
    fr = FRACS[key["frac"]]
    return H.params_for(0, "default", assemblage=[pd.MineralPhase.olivine, pd.MineralPhase.enstatite], fractions=fr)


def run_bulk(key):
    """update_all with the mineral list in every order."""
    res = empty_result()
    pd = H.pd()
    prm = bulk_params(key)
    fls = [H.flow(x) for x in FLOW_PAIRS[key["flows"]]]
    base = None
    obs = []
    for perm in itertools.permutations(range(key["nmin"])):
        ms = make_minerals(key)
        order = [ms[i] for i in perm]
        F, t, strain = H.f0("generic"), 0.0, 0.0
        for j, fl in enumerate(fls):
            res["n"] += 1
            res["trans"] += 1
            with H.time_limit():
                F = pd.update_all(order, prm, F, fl.L, (t, t + 0.4, fl.x))
            strain += fl.strain(t, t + 0.4)
            t += 0.4
        res["states"] += 1
        snap = ([np.array(m.orientations) for m in ms], [np.array(m.fractions) for m in ms], np.asarray(F))
        obs += [snap[2]] + snap[0]
        if base is None:
            base = snap
            continue
        bound = H.ode_bound(2, strain)
        res["clauses"]["mineral_order"] = res["clauses"].get("mineral_order", 0) + 1
        dev = max(
            max(float(np.abs(a - b).max()) for a, b in zip(snap[0], base[0])),
            max(float(np.abs(a - b).max()) for a, b in zip(snap[1], base[1])),
            float(np.abs(snap[2] - base[2]).max()),
        )
        res["notes"]["max_order_dev"] = max(res["notes"].get("max_order_dev", 0.0), dev)
        if not dev <= bound:
            H.V(res, key, "mineral_order", {"dev": dev, "bound": bound}, perm="".join(map(str, perm)))
        res["nontrivial"].append(digest(key, perm))
    # the bulk update against every mineral updated on its own from the SAME starting F
    # ("common starting F"), at tight solver tolerances (rtol 1e-10, atol 1e-12) so that the
    # comparison resolves what a looser bound would absorb (seed C08e: F chained through the
    # mineral list changes the second mineral by ~1e-4 in the dislocation regimes)
    tight = dict(rtol=1e-10, atol=1e-12)
    for perm in list(itertools.permutations(range(key["nmin"])))[:2]:
        ms = make_minerals(key)
        order = [ms[i] for i in perm]
        alone = make_minerals(key)
        F, t = H.f0("generic"), 0.0
        Fa = [H.f0("generic") for _ in alone]
        for j, fl in enumerate(fls):
            res["n"] += 1 + len(alone)
            res["trans"] += 1
            with H.time_limit():
                Fn = pd.update_all(order, prm, F, fl.L, (t, t + 0.4, fl.x), **tight)
            for i, m in enumerate(alone):
                Fa[i] = H.update(m, prm, F, fl, t, t + 0.4, **tight)
            res["clauses"]["bulk_equals_standalone"] = res["clauses"].get("bulk_equals_standalone", 0) + 1
            dA = max(float(np.abs(a.orientations[-1] - b.orientations[-1]).max()) for a, b in zip(ms, alone))
            df = max(float(np.abs(a.fractions[-1] - b.fractions[-1]).max()) for a, b in zip(ms, alone))
            dF = min(float(np.abs(np.asarray(Fn) - x).max()) for x in Fa)
            res["notes"]["max_bulk_vs_standalone_dev"] = max(res["notes"].get("max_bulk_vs_standalone_dev", 0.0), dA, df, dF)
            if not max(dA, df, dF) <= 1e-6:
                H.V(res, key, "bulk_equals_standalone", {"orientation_dev": dA, "fraction_dev": df, "F_dev": dF, "bound": 1e-6}, perm="".join(map(str, perm)), update=j)
                break
            F = np.asarray(Fn)
            t += 0.4
        res["states"] += 1
    # two DISTINCT mineral objects that are equal in content (built from the same arguments)
    # in one list, around another mineral: every entry is advanced, and like its twin
    # (seed C08h: the list de-duplicated with the content-based ==)
    for pos in ((0, 1), (0, 2)):
        ms = make_minerals(dict(key, nmin=2))
        twin = make_minerals(dict(key, nmin=2))[0]
        lst = [ms[0], ms[1]]
        lst.insert(pos[1], twin)
        F, t = H.f0("generic"), 0.0
        res["clauses"]["equal_minerals_all_advanced"] = res["clauses"].get("equal_minerals_all_advanced", 0) + 1
        try:
            for j, fl in enumerate(fls):
                res["n"] += 1
                with H.time_limit():
                    F = np.asarray(pd.update_all(lst, prm, F, fl.L, (t, t + 0.4, fl.x)))
                t += 0.4
            lens = [len(m.orientations) for m in lst]
            same = np.array_equal(ms[0].orientations[-1], twin.orientations[-1]) and np.array_equal(ms[0].fractions[-1], twin.fractions[-1])
            if lens != [len(fls) + 1] * 3 or not same:
                H.V(res, key, "equal_minerals_all_advanced", {"snapshots_per_list_entry": lens, "twins_identical": bool(same)}, twin_at=pos[1])
        except Exception as e:
            H.V(res, key, "equal_minerals_all_advanced", {"exception": type(e).__name__, "msg": str(e)[:200]}, twin_at=pos[1])
        res["states"] += 1
    res["outcomes"].append(digest(*[np.round(o, 9) for o in obs]))
    res["obs"] = digest(*obs)
    res["sample"] = {"case": key}
    return res


def interleavings(counts):
    """All distinct orderings of the multiset {i repeated counts[i]} (stateless DFS)."""
    out = []

    def rec(prefix, left):
        if not any(left):
            out.append(tuple(prefix))
            return
        for i, c in enumerate(left):
            if c:
                left[i] -= 1
                rec(prefix + [i], left)
                left[i] += 1

    rec([], list(counts))
    return out


def run_interleave(key):
    res = empty_result()
    prm = bulk_params(key)
    nm = key["nmin"]
    per = 2 if (alph.TIER == "quick" or nm == 3) else 3
    fls = [H.flow(x) for x in FLOW_PAIRS[key["flows"]]] + [H.flow("gen")]
    scheds = interleavings([per] * nm)
    # closed form for the number of schedules: multinomial
    from math import factorial

    expect = factorial(per * nm) // (factorial(per) ** nm)
    if len(scheds) != expect:
        raise RuntimeError(f"explorer lost schedules: {len(scheds)} != {expect}")
    base = None
    obs = []
    for sched in scheds:
        ms = make_minerals(key, alias=bool(key["alias"]))
        # plus an identical twin of mineral 0, driven identically right after it (clause e)
        twin0 = copy.deepcopy(ms[0])
        Fs = [H.f0("generic") for _ in range(nm)]
        Ft = H.f0("generic")
        done = [0] * nm
        for i in sched:
            fl = fls[done[i]]
            t0 = 0.3 * done[i]
            res["n"] += 1
            res["trans"] += 1
            Fs[i] = H.update(ms[i], prm, Fs[i], fl, t0, t0 + 0.3)
            if i == 0:
                res["n"] += 1
                Ft = H.update(twin0, prm, Ft, fl, t0, t0 + 0.3)
                res["clauses"]["identical_twins"] = res["clauses"].get("identical_twins", 0) + 1
                if not (np.array_equal(twin0.orientations[-1], ms[0].orientations[-1]) and np.array_equal(twin0.fractions[-1], ms[0].fractions[-1]) and np.array_equal(Ft, Fs[0])):
                    H.V(res, key, "identical_twins", {"dev": float(np.abs(twin0.orientations[-1] - ms[0].orientations[-1]).max())}, sched="".join(map(str, sched)))
            done[i] += 1
        res["states"] += 1
        snap = [digest(np.array(m.orientations), np.array(m.fractions), F) for m, F in zip(ms, Fs)]
        if base is None:
            base = snap
            obs += snap
            res["outcomes"] += snap
            continue
        res["clauses"]["interleaving_independent"] = res["clauses"].get("interleaving_independent", 0) + 1
        if snap != base:
            bad = [i for i in range(nm) if snap[i] != base[i]]
            H.V(res, key, "interleaving_independent", {"minerals_differing": bad}, sched="".join(map(str, sched)))
        res["nontrivial"].append(digest(key, sched))
    res["notes"]["schedules"] = len(scheds)
    res["obs"] = digest(*obs)
    res["sample"] = {"case": key, "schedules": len(scheds), "example": "".join(map(str, scheds[len(scheds) // 2]))}
    return res
