"""C10 - the Voigt average is the volume-weighted mean of rotated single-crystal stiffnesses
(engine A: exhaustive product of small alphabets; oracle = independent reference model
ref/voigt_ref.py plus texture-independent invariants and metamorphic twins)."""

import itertools

import numpy as np

from mc import alph
from mc.runner import digest, empty_result, quiet_pydrex
from ref import voigt_ref as VR

PID = "C10"
RULE = (
    "full cross product assemblage {(ol),(en),(ol,en),(en,ol)} x phase-fraction letters x texture "
    "kind (all identity / cube letters / generic letters / generic letters held fixed over the snapshots; distinct letters per grain, per mineral "
    "and per snapshot) x grain count x volume-vector letter (rolled per snapshot and mineral) x "
    "snapshot count x stiffness set (built-in default argument / fixed dense triclinic SPD pair / the same pair in whole GPa held as int64 and as float32 arrays / "
    "seeded dense SPD pair, both through a StiffnessTensors instance with modified attributes); "
    "inside each case EVERY ordering of the mineral list x {as given, assemblage and fractions "
    "permuted together} x every frame-rotation letter Q (A -> A.Q^T). Plus mismatch cases: two "
    "minerals with unequal grain counts or unequal snapshot counts, all ordered pairs from {1,2,3}, "
    "both mineral orders. Minerals are built with the public constructor (no solver), extra "
    "snapshots appended to .fractions/.orientations. A case is non-trivial when at least two "
    "distinct (phase, orientation) pairs carry positive weight; distinct = distinct case key."
)
ASSUMPTIONS = [
    "one mineral per phase of the assemblage; grain volumes of every snapshot sum to one; phase "
    "fractions sum to one (the statement's precondition)",
    "orientation matrices hold the crystal axes as rows in the external frame, so the external-frame "
    "stiffness of a grain is the crystal-frame tensor rotated by A^T",
    "the stiffness of a phase is the attribute of that name of the StiffnessTensors object (the "
    "reference reads .olivine / .enstatite, never the iteration order)",
    "rejection of mismatched minerals means ValueError (documented in the docstring of voigt_averages)",
    "numpy einsum is trusted; tolerance 1e-9 relative to the largest entry of the expected 6x6",
]
BOUND = {
    "quick": "n_grains in {1,2,3,40} (+ 5000 once per assemblage and volume letter); 1-3 snapshots; 5 fraction letters; 3 volume letters; 5 stiffness sets; "
    "6 frame rotations (3 cube + 3 generic)",
    "thorough": "n_grains in {1,2,3,4,6,200}; 1-4 snapshots; 8 fraction letters incl. (1,0),(0,1); 7 volume "
    "letters; 4 texture kinds (adds mixed cube/generic/near-identity); all FRAME rotations",
}

TOL = 1e-9
PH = {"ol": 0, "en": 1}
PHNAME = {0: "olivine", 1: "enstatite"}
FABRIC = {0: 0, 1: 5}  # olivine A, enstatite AB
ASMS = ["ol", "en", "ol,en", "en,ol"]
FR1 = ["1.0"]
FR2_Q = ["0.7,0.3", "0.5,0.5", "0.3,0.7", "0.1,0.9"]
FR2_T = FR2_Q + ["0.9,0.1", "1.0,0.0", "0.0,1.0"]
TEX_Q = ["ident", "cube", "gen", "gen_static"]
TEX_T = TEX_Q + ["mixed"]
VOL_Q = ["uniform", "dominant", "onezero"]
VOL_T = VOL_Q + ["geometric", "allbutone", "dup", "dirichlet"]
N_Q = [1, 2, 3, 40]
N_T = [1, 2, 3, 4, 6, 200]
STIFF = ["builtin", "custom", "seeded", "integer", "f32int"]
QCUBE_QUICK = ["cube03", "cube10", "cube17"]

_P = None  # pydrex
_M = None  # pydrex.minerals


def _tier():
    return alph.TIER


def q_letters():
    if _tier() == "quick":
        return QCUBE_QUICK + [k for k in alph.GEN][:3]
    return [k for k in alph.FRAME if k != "cube00"]


def ALPHABETS():
    t = _tier() == "thorough"
    return {
        "assemblages": len(ASMS),
        "fraction_letters_two_phase": len(FR2_T if t else FR2_Q),
        "texture_kinds": len(TEX_T if t else TEX_Q),
        "grain_counts": len(N_T if t else N_Q),
        "volume_letters": len(VOL_T if t else VOL_Q),
        "snapshot_counts": 4 if t else 3,
        "stiffness_sets": len(STIFF),
        "frame_rotations": len(q_letters()),
        "orientation_pool_generic": len(_pool("gen")),
        "mismatch_pairs": 6,
    }


def warmup():
    global _P, _M
    import pydrex
    from pydrex import minerals

    _P, _M = pydrex, minerals
    quiet_pydrex()  # Mineral() logs one INFO line per object
    # compile the numba tensor kernels once in the parent
    m = _mineral(0, [np.ones(1)], [np.eye(3)[None]])
    pydrex.voigt_averages([m], [pydrex.MineralPhase.olivine], [1.0])
    # the custom stiffness letters must be what they claim to be (else: harness error)
    for name in ("custom", "seeded", "integer", "f32int"):
        for c in stiffness(name)[1].values():
            assert np.array_equal(c, c.T) and np.linalg.eigvalsh(c).min() > 1.0
            assert np.all(c != 0.0) and len(np.unique(np.round(c[np.triu_indices(6)], 9))) == 21
    assert np.array_equal(alph.CUBE["cube00"], np.eye(3))


# ------------------------------------------------------------------ enumeration


def gen_cases(tier, seed):
    t = tier == "thorough"
    fr2 = FR2_T if t else FR2_Q
    texs = TEX_T if t else TEX_Q
    vols = VOL_T if t else VOL_Q
    ns = N_T if t else N_Q
    snaps = [1, 2, 3, 4] if t else [1, 2, 3]
    keys = []
    # simplest first: single phase, one grain, one snapshot, built-in
    for stiff in STIFF:
        for ns_ in snaps:
            for n in ns:
                for tex in texs:
                    for vol in vols if n > 1 else vols[:1]:
                        for asm in ASMS:
                            for fr in FR1 if "," not in asm else fr2:
                                keys.append(dict(kind="avg", asm=asm, fr=fr, tex=tex, n=n, vol=vol, snaps=ns_, stiff=stiff))
    # an aggregate larger than any internal block size one might think of, and not a round
    # multiple of a power of two (seed C10h: block-wise summation dropping the remainder)
    for asm in ASMS:
        for fr in (FR1 if "," not in asm else fr2)[:1]:
            for vol in ("uniform", "dominant"):
                keys.append(dict(kind="avg", asm=asm, fr=fr, tex="gen", n=5000, vol=vol, snaps=1, stiff="builtin"))
    # the phase given as an ordinal (a Python int, or the numpy uint8 that Mineral.load /
    # from_file leave behind) instead of the enumeration member (seed C10i: tensor chosen by `is`)
    for asm in ASMS:
        for fr in (FR1 if "," not in asm else fr2)[:2]:
            for pform in ("int", "u8"):
                keys.append(dict(kind="avg", asm=asm, fr=fr, tex="gen", n=3, vol="dominant", snaps=2, stiff="builtin", pform=pform))
    pairs = [(a, b) for a in (1, 2, 3) for b in (1, 2, 3) if a != b]
    for stiff in ("builtin", "custom"):
        for asm in ("ol,en", "en,ol"):
            for fr in ("0.7,0.3", "0.5,0.5"):
                for what in ("grains", "snaps"):
                    for other in (1, 2):
                        for a, b in pairs:
                            keys.append(dict(kind="mismatch", asm=asm, fr=fr, what=what, a=a, b=b, other=other, stiff=stiff))
    return keys


# ------------------------------------------------------------------ letters


def _pool(kind):
    if kind == "gen":
        return [k for k in alph.ORI if ".g" in k]
    if kind == "near":
        return [k for k in alph.ORI if ".n1e" in k]
    raise KeyError(kind)


def tex_letters(kind, n, slot, k):
    """Names of the n orientation letters of snapshot k of the mineral in slot `slot`
    (slot = phase ordinal): distinct per grain, and different per snapshot and mineral."""
    if kind == "ident":
        return ["cube00"] * n
    cube = list(alph.CUBE)
    if kind == "cube":
        return [cube[(1 + 5 * g + 7 * k + 11 * slot) % 24] for g in range(n)]
    gen = _pool("gen")
    if kind == "gen_static":
        # the same orientations in every snapshot (only the volumes change from one
        # snapshot to the next): seed C10f
        return [gen[(3 + 37 * g + 53 * slot) % len(gen)] for g in range(n)]
    if kind == "gen":
        return [gen[(3 + 37 * g + 101 * k + 53 * slot) % len(gen)] for g in range(n)]
    if kind == "mixed":
        near = _pool("near")
        out = []
        for g in range(n):
            j = 2 + 5 * g + 7 * k + 11 * slot
            out.append([cube[j % 24], gen[(j * 37) % len(gen)], near[(j * 29) % len(near)]][(g + k + slot) % 3])
        return out
    raise KeyError(kind)


def vol_vector(name, n, slot, k):
    return np.roll(alph.volumes(name, n), k + slot).copy()


def stiffness(name):
    """-> (object to pass as elastic_tensors or None for the default argument,
            {phase ordinal: 6x6} read BY NAME)."""
    if name == "builtin":
        st = _M.StiffnessTensors()
        return None, {0: np.array(st.olivine, dtype=float), 1: np.array(st.enstatite, dtype=float)}
    i, j = np.meshgrid(np.arange(6.0), np.arange(6.0), indexing="ij")
    if name == "custom":
        b_ol = np.sin(1.3 * i + 2.1 * j + 0.7)
        b_en = np.cos(0.9 * i - 1.7 * j + 0.3)
        c_ol = 40.0 * b_ol @ b_ol.T + np.diag([150.0, 170.0, 190.0, 60.0, 70.0, 80.0])
        c_en = 35.0 * b_en @ b_en.T + np.diag([140.0, 120.0, 160.0, 75.0, 65.0, 55.0])
    elif name == "seeded":
        rng = np.random.default_rng(2000 + alph.SEED)
        b_ol = rng.normal(size=(6, 6))
        b_en = rng.normal(size=(6, 6))
        c_ol = 30.0 * b_ol @ b_ol.T + 50.0 * np.eye(6)
        c_en = 25.0 * b_en @ b_en.T + 60.0 * np.eye(6)
    elif name in ("integer", "f32int"):
        # the "custom" pair typed as whole numbers (units of 0.1 GPa): the same whole numbers held as int64 or as
        # float32 arrays (both are ndarrays, which is all StiffnessTensors asks for)
        _, base = stiffness("custom")
        dt = np.int64 if name == "integer" else np.float32
        c_ol, c_en = np.rint(10.0 * base[0]), np.rint(10.0 * base[1])
        c_ol, c_en = np.triu(c_ol) + np.triu(c_ol, 1).T, np.triu(c_en) + np.triu(c_en, 1).T
        st = _M.StiffnessTensors()
        st.olivine = c_ol.astype(dt)
        st.enstatite = c_en.astype(dt)
        return st, {0: c_ol, 1: c_en}
    else:
        raise KeyError(name)
    c_ol = (c_ol + c_ol.T) / 2
    c_en = (c_en + c_en.T) / 2
    st = _M.StiffnessTensors()
    st.olivine = c_ol.copy()  # "modify the attributes of a StiffnessTensors instance"
    st.enstatite = c_en.copy()
    return st, {0: c_ol, 1: c_en}


_PHASE_FORM = ["enum"]  # how the phase is handed to the Mineral constructor


def _mineral(phase, fs, As):
    ph = _P.MineralPhase(phase)
    if _PHASE_FORM[0] == "int":
        ph = int(phase)
    elif _PHASE_FORM[0] == "u8":  # what Mineral.load / from_file leave in .phase
        ph = np.uint8(phase)
    m = _P.Mineral(
        phase=ph,
        fabric=_P.MineralFabric(FABRIC[phase]),
        regime=4,
        n_grains=len(fs[0]),
        fractions_init=np.array(fs[0], dtype=float),
        orientations_init=np.array(As[0], dtype=float),
    )
    for f, A in zip(fs[1:], As[1:]):
        m.fractions.append(np.array(f, dtype=float))
        m.orientations.append(np.array(A, dtype=float))
    return m


def call(desc, asm, fr, st):
    """desc: list of (phase ordinal, [f_k], [A_k]).  -> ('ok', array) | ('exc', type name)."""
    ms = [_mineral(p, fs, As) for p, fs, As in desc]
    assemblage = [_P.MineralPhase(p) for p in asm]
    try:
        if st is None:
            out = _P.voigt_averages(ms, assemblage, list(fr))
        else:
            out = _P.voigt_averages(ms, assemblage, list(fr), st)
    except Exception as e:
        return "exc", type(e).__name__
    return "ok", np.asarray(out, dtype=float)


def close(a, b):
    """max error relative to the largest expected entry, per 6x6 -> (ok, worst rel err)."""
    a, b = np.asarray(a), np.asarray(b)
    if a.shape != b.shape or not np.isfinite(a).all():
        return False, float("inf")
    scale = np.maximum(np.abs(b).reshape(len(b), -1).max(axis=1), 1e-300)
    err = np.abs(a - b).reshape(len(b), -1).max(axis=1) / scale
    return bool((err <= TOL).all()), float(err.max())


def classify(obs, desc, asm, fr, stiff):
    """Characterise a wrong result: equal (1e-9) to the reference evaluated with the stiffness
    picked by the position of the phase in the assemblage from the ordinal-ordered list."""
    wrong = VR.average(desc, asm, fr, stiff, lookup="position")
    if close(obs, wrong)[0]:
        return "stiffness_by_assemblage_position"
    return "other"


# ------------------------------------------------------------------ cases


def run_case(key):
    if key["kind"] == "mismatch":
        return run_mismatch(key)
    _PHASE_FORM[0] = key.get("pform", "enum")
    try:
        return _run_avg(key)
    finally:
        _PHASE_FORM[0] = "enum"


def _run_avg(key):
    res = empty_result()
    cl = res["clauses"]
    viol = res["viol"]
    asm = [PH[x] for x in key["asm"].split(",")]
    fr = [float(x) for x in key["fr"].split(",")]
    n, nsn = key["n"], key["snaps"]
    st, stiff = stiffness(key["stiff"])
    letters = {p: [tex_letters(key["tex"], n, p, k) for k in range(nsn)] for p in asm}
    base_desc = {
        p: (
            p,
            [vol_vector(key["vol"], n, p, k) for k in range(nsn)],
            [np.array([alph.ORI[x] for x in letters[p][k]]) for k in range(nsn)],
        )
        for p in asm
    }

    def V(clause, detail, **extra):
        k = dict(key)
        k.update(extra)
        viol.append({"clause": clause, "key": k, "detail": detail})

    def count(c, k=1):
        cl[c] = cl.get(c, 0) + k

    obs_parts = []
    orders = list(itertools.permutations(asm))
    Kexp, Gexp = VR.moduli_expected(asm, fr, stiff)
    first = None
    seen = set()  # first failing mineral order only, per clause
    for order in orders:
        oname = ",".join("ol" if p == 0 else "en" for p in order)
        desc = [base_desc[p] for p in order]
        ref = VR.average(desc, asm, fr, stiff)
        res["n"] += 1
        res["states"] += 1
        kind, out = call(desc, asm, fr, st)
        obs_parts.append(out if kind == "ok" else kind + out)
        count("reference")
        if kind == "exc" or out.shape != ref.shape:
            if "reference" not in seen:
                seen.add("reference")
                V("reference", {"outcome": out if kind == "exc" else list(out.shape)}, order=oname, form="raised_" + out if kind == "exc" else "shape")
            continue
        form = None
        ok, err = close(out, ref)
        if not ok:
            form = classify(out, desc, asm, fr, stiff)
            if "reference" not in seen:
                seen.add("reference")
                k = int(np.argmax(np.abs(out - ref).reshape(nsn, -1).max(axis=1)))
                V("reference", {"rel_err": err, "snapshot": k, "observed": out[k], "expected": ref[k]}, order=oname, form=form)
        # symmetry of every 6x6
        count("symmetric", nsn)
        asym = np.abs(out - np.transpose(out, (0, 2, 1))).reshape(nsn, -1).max(axis=1)
        if not np.all(asym <= TOL * np.abs(out).reshape(nsn, -1).max(axis=1)) and "symmetric" not in seen:
            seen.add("symmetric")
            V("symmetric", {"max_asym": float(asym.max())}, order=oname, form="other")
        # texture-independent moduli
        count("moduli", nsn)
        KG = np.array([VR.voigt_moduli(c) for c in out])
        bad = (np.abs(KG[:, 0] - Kexp) > TOL * abs(Kexp)) | (np.abs(KG[:, 1] - Gexp) > TOL * abs(Gexp))
        if bad.any() and "moduli" not in seen:
            seen.add("moduli")
            k = int(np.argmax(bad))
            V(
                "moduli",
                {"snapshot": k, "K": float(KG[k, 0]), "G": float(KG[k, 1]), "K_expected": Kexp, "G_expected": Gexp},
                order=oname,
                form=form if form is not None else "other",
            )
        # one aligned grain of one phase returns the single crystal tensor
        if len(asm) == 1 and n == 1 and key["tex"] == "ident":
            count("single", nsn)
            c = stiff[asm[0]]
            ok1, e1 = close(out, np.repeat(c[None], nsn, axis=0))
            if not ok1 and "single" not in seen:
                seen.add("single")
                V("single", {"rel_err": e1, "observed": out[0], "expected": c}, order=oname, form=form if form is not None else "other")
        if first is None:
            first = out
            res["outcomes"].append(digest(np.round(out, 6)))
        else:
            # independence of the order of the minerals
            count("mineral_order")
            okm, em = close(out, first)
            if not okm:
                V("mineral_order", {"rel_err": em, "first_order": first[0], "this_order": out[0]}, order=oname, form="other")
        # independence of the order of the phases (assemblage and fractions permuted together)
        if len(asm) == 2:
            res["n"] += 1
            count("phase_order")
            asm2, fr2 = asm[::-1], fr[::-1]
            kind2, out2 = call(desc, asm2, fr2, st)
            obs_parts.append(out2 if kind2 == "ok" else kind2 + out2)
            if kind2 == "exc":
                okp, ep, f2 = False, float("inf"), "raised_" + out2
            else:
                okp, ep = close(out2, out)
                f2 = None
                if not okp:
                    # characterised only if BOTH members equal the position-lookup model
                    fa = form if form is not None else ("stiffness_by_assemblage_position" if close(out, VR.average(desc, asm, fr, stiff, lookup="position"))[0] else "other")
                    fb = classify(out2, desc, asm2, fr2, stiff)
                    f2 = fa if fa == fb else "other"
            if not okp and "phase_order" not in seen:
                seen.add("phase_order")
                V(
                    "phase_order",
                    {"rel_err": ep, "as_listed": out[0], "permuted": None if kind2 == "exc" else out2[0]},
                    order=oname,
                    twin_asm=",".join("ol" if p == 0 else "en" for p in asm2),
                    form=f2,
                )
        # co-rotation with the frame: A -> A.Q^T  =>  C -> rotate(C, Q)
        for qn in q_letters():
            Q = alph.FRAME[qn]
            descq = [(p, fs, [A @ Q.T for A in As]) for p, fs, As in desc]
            res["n"] += 1
            res["states"] += 1
            count("corotation")
            kq, outq = call(descq, asm, fr, st)
            obs_parts.append(outq if kq == "ok" else kq + outq)
            if kq == "exc":
                V("corotation", {"outcome": outq}, order=oname, Q=qn, form="raised_" + outq)
                continue
            expq = np.array([VR.rotate6(c, Q) for c in out])
            okq, eq = close(outq, expq)
            if not okq:
                V("corotation", {"rel_err": eq, "observed": outq[0], "expected": expq[0]}, order=oname, Q=qn, form="other")
    res["trans"] = res["n"]
    # non-trivial: >= 2 distinct (phase, orientation) pairs with positive weight
    pairs = set()
    for p in asm:
        phi = fr[asm.index(p)]
        for k in range(nsn):
            for g in range(n):
                if phi * base_desc[p][1][k][g] > 0:
                    pairs.add((p, letters[p][k][g]))
    if len(pairs) >= 2:
        res["nontrivial"].append(digest(key))
    res["notes"]["max_grains_per_call"] = n * len(asm) * nsn
    res["obs"] = digest(*obs_parts)
    res["sample"] = {
        "case": key,
        "orientation_letters": {PHNAME[p]: letters[p] for p in asm},
        "volumes_snapshot0": {PHNAME[p]: base_desc[p][1][0].tolist() for p in asm},
        "mineral_orders": len(orders),
        "Q": q_letters(),
    }
    return res


def run_mismatch(key):
    """Two minerals whose grain counts (what='grains') or snapshot counts (what='snaps')
    differ: a = count of the olivine mineral, b = of the enstatite mineral; `other` = the
    common value of the other dimension.  Both mineral orders.  Must raise ValueError."""
    res = empty_result()
    asm = [PH[x] for x in key["asm"].split(",")]
    fr = [float(x) for x in key["fr"].split(",")]
    st, _ = stiffness(key["stiff"])
    cnt = {0: key["a"], 1: key["b"]}
    desc = {}
    for p in (0, 1):
        n = cnt[p] if key["what"] == "grains" else key["other"]
        ns = cnt[p] if key["what"] == "snaps" else key["other"]
        desc[p] = (
            p,
            [vol_vector("uniform", n, p, k) for k in range(ns)],
            [np.array([alph.ORI[x] for x in tex_letters("gen", n, p, k)]) for k in range(ns)],
        )
    obs = []
    for order in itertools.permutations(asm):
        oname = ",".join("ol" if p == 0 else "en" for p in order)
        res["n"] += 1
        res["states"] += 1
        res["clauses"]["reject"] = res["clauses"].get("reject", 0) + 1
        kind, out = call([desc[p] for p in order], asm, fr, st)
        if kind == "exc":
            obs.append("exc" + out)
            res["outcomes"].append("exc" + out)
        else:
            obs.append(out)
            res["outcomes"].append("returned")
        if kind != "exc" or out != "ValueError":
            k = dict(key)
            k.update(order=oname, form="no_exception" if kind == "ok" else "raised_" + out)
            res["viol"].append({"clause": "reject", "key": k, "detail": {"outcome": "returned a value" if kind == "ok" else out}})
    res["trans"] = res["n"]
    res["nontrivial"].append(digest(key))
    res["obs"] = digest(*obs)
    res["sample"] = {"case": key}
    return res
