"""C04 - frame indifference and crystal-symmetry invariance.

Part 1 (engine A): instantaneous rates, exhaustive over the product of alphabets x every
frame rotation Q and every assignment of lattice two-folds to the grains of small sets.
Part 2 (engine B with a lock-step twin): integrated textures, see props/_hist.py.
"""

import itertools

import numpy as np

from mc import alph
from mc.runner import digest, empty_result
from props import _rates as R
from ref import drex_ref

PID = "C04"
RULE = (
    "rates: fabric(6) x regime(2) x normalised gradient alphabet (D != 0) x volume letters x "
    "parameter settings (<=1 deviation over p, n, lambda*) x EVERY frame rotation Q of the frame "
    "alphabet (24 cube rotations + generic ones): derivatives(QLQ^T, QDQ^T, A Q^T) must equal "
    "(dA Q^T, df); every assignment of {I, 2a, 2b, 2c} to the grains of 3-grain sets (4^3 = 64, all "
    "enumerated) and 5 patterns on the whole alphabet texture: flipped grains get the flipped rate, "
    "all volume rates identical. textures: BFS over update sequences (depth 2) from roots "
    "fabric x texture x regime with a twin driven in the rotated frame / with lattice-equivalent "
    "grains; after every update orientations, fractions and F are compared (see _hist.py). "
    "Grains in the exclusion zone (max|I/tau| < 1e-9, where any guard on exact zeros is "
    "discontinuous) are removed from rate textures. Non-trivial: Q != I or a non-identity "
    "two-fold on at least one grain, with >= 2 active slip systems; distinct = case key."
)
ASSUMPTIONS = [
    "tolerance law 1e-11 + 1e-13/max|I/tau| for rates; accumulated ODE bound 5e-3 + 1e-3(N + 2 strain) for textures",
    "rotations of the alphabet are orthonormal to rounding; signed permutations are exact",
]
BOUND = {
    "quick": "27 frame rotations; <=1 deviation over (p, n, lambda*); 3-grain sets: 6 sets x 64 assignments; histories depth 2, 6 Q letters, n_grains in {2,3,5,8}",
    "thorough": "30 frame rotations; <=2 deviations; histories depth 3",
}

VOLS = ["uniform", "dirichlet"]
PATTERNS = ["all2a", "all2b", "all2c", "alt", "mod4"]


def ALPHABETS():
    return {
        "frames": len(alph.FRAME),
        "orientations": len(alph.ORI),
        "gradients": len([v for v in alph.VG if not v.startswith("rigid")]),
        "twofold_assignments_3grains": 64,
    }


def warmup():
    R.warm()
    from props import _hist, c03

    _hist.warm()
    c03.warmup()  # compiles the integer-typed signatures


def prm_settings(tier):
    out = []
    for n, d in alph.param_settings(1 if tier == "quick" else 2):
        if d["M"] == 125.0 and d["phi"] == 1.0:
            out.append(n)
    return out


def gen_cases(tier, seed):
    keys = []
    vgs = [v for v in alph.VG if not v.startswith("rigid")]
    for fab, reg in itertools.product(alph.FABRICS, alph.DISL):
        for vg in vgs:
            for vol in VOLS:
                for prm in prm_settings(tier):
                    keys.append(dict(part="frame", fab=fab, reg=reg, vg=vg, vol=vol, prm=prm))
            keys.append(dict(part="twofold", fab=fab, reg=reg, vg=vg, vol="dirichlet", prm=prm_settings(tier)[0]))
            # ... and with equal stress and deformation exponents (p = n = 2; seed C04i: a
            # linear-law fast path that drops the absolute value of the slip rate)
            keys.append(dict(part="twofold", fab=fab, reg=reg, vg=vg, vol="dirichlet", prm="p2n1lam0M0phi0"))
    from props import _hist

    keys += _hist.gen_cases_c04(tier)
    # axis-aligned grains typed with integer literals: the int64-typed call must reproduce the
    # float64 call (which the frame clauses above cover) bit for bit (seed C04h)
    from props import c03

    for fab, reg in itertools.product(alph.FABRICS, alph.DISL):
        for vg in c03.WHOLE_VGS[:6]:
            keys.append(dict(part="dtype", fab=fab, reg=reg, vg=vg))
    return keys


def filtered_texture(ph, fb, D):
    names = list(alph.ORI)
    A = np.array([alph.ORI[k] for k in names])
    act = drex_ref.activity(ph, fb, A, D)
    keep = act >= 1e-9
    return [n for n, k in zip(names, keep) if k], np.ascontiguousarray(A[keep]), act[keep]


def run_case(key):
    if key["part"] == "dtype":
        from props import c03

        return c03.run_dtype(key)
    if key["part"] == "hist":
        from props import _hist

        return _hist.run_case_c04(key)
    res = empty_result()
    ph, fb = alph.FABRICS[key["fab"]]
    rg = alph.DISL[key["reg"]]
    L, D = alph.normalised(alph.VG[key["vg"]])
    prm = alph.param_by_name(key["prm"])
    names, A, act = filtered_texture(ph, fb, D)
    n = len(names)
    f = alph.volumes(key["vol"], n)
    args = (prm["p"], prm["n"], prm["lam"], prm["M"], prm["phi"])
    cl = res["clauses"]
    obs = []

    def V(clause, detail, **kw):
        k = dict(key)
        k.update(kw)
        res["viol"].append({"clause": clause, "key": k, "detail": detail})

    res["n"] += 1
    dA0, df0 = R.call(rg, ph, fb, A, f, D, L, *args)
    obs += [dA0, df0]
    tol = R.tol_rate(act)
    tolf = 10 * prm["phi"] * prm["M"] * f * (tol + np.sum(f * tol)) + 1e-14 * np.abs(df0) + 1e-300
    with np.errstate(all="ignore"):
        beta = drex_ref.rates(ph, fb, rg, A, f, D, L, *args)["beta"]
    multi = bool(((np.abs(beta) > 1e-12).sum(axis=1) >= 2).any())

    if key["part"] == "frame":
        for qn, Q in alph.FRAME.items():
            res["n"] += 1
            res["trans"] += 1
            LQ = Q @ L @ Q.T
            DQ = Q @ D @ Q.T
            AQ = np.einsum("gij,kj->gik", A, Q)
            try:
                dA, df = R.call(rg, ph, fb, AQ, f, DQ, LQ, *args)
            except Exception as e:
                V("frame_rate", {"exception": type(e).__name__}, Q=qn, grain="(call)")
                continue
            obs += [dA, df]
            cl["frame_rate"] = cl.get("frame_rate", 0) + n
            exp = np.einsum("gij,kj->gik", dA0, Q)
            err = np.abs(dA - exp).max(axis=(1, 2))
            bad = ~(err <= 2 * tol)
            if bad.any():
                i = int(np.argmax(np.where(bad, err / tol, 0)))
                V("frame_rate", {"n_bad": int(bad.sum()), "err": float(err[i]), "tol": float(2 * tol[i])}, Q=qn, grain=names[i])
            cl["frame_volume"] = cl.get("frame_volume", 0) + n
            errf = np.abs(df - df0)
            badf = ~(errf <= 2 * tolf)
            if badf.any():
                i = int(np.argmax(np.where(badf, errf / tolf, 0)))
                V("frame_volume", {"n_bad": int(badf.sum()), "err": float(errf[i]), "tol": float(2 * tolf[i])}, Q=qn, grain=names[i])
            res["notes"]["max_frame_rate_dev"] = max(res["notes"].get("max_frame_rate_dev", 0.0), float(err.max()))
            if multi and qn != "cube00":
                res["nontrivial"].append(digest(key, qn))
        res["states"] = len(alph.FRAME)
    else:  # lattice two-folds
        S = list(alph.TWOFOLDS.items())

        def check(sel_names, Asel, fsel, assign, tag):
            res["n"] += 2
            res["trans"] += 1
            a0, f0 = R.call(rg, ph, fb, Asel, fsel, D, L, *args)
            SA = np.array([S[s][1] @ Asel[i] for i, s in enumerate(assign)])
            a1, f1 = R.call(rg, ph, fb, SA, fsel, D, L, *args)
            obs.extend([a1, f1])
            actsel = drex_ref.activity(ph, fb, Asel, D)
            t = R.tol_rate(actsel)
            tf = 10 * prm["phi"] * prm["M"] * fsel * (t + np.sum(fsel * t)) + 1e-14 * np.abs(f0) + 1e-300
            exp = np.array([S[s][1] @ a0[i] for i, s in enumerate(assign)])
            cl["twofold_rate"] = cl.get("twofold_rate", 0) + len(assign)
            err = np.abs(a1 - exp).max(axis=(1, 2))
            bad = ~(err <= 2 * t)
            if bad.any():
                i = int(np.argmax(bad))
                V("twofold_rate", {"err": float(err[i]), "tol": float(2 * t[i])}, assign=tag, grain=sel_names[i], op=S[assign[i]][0])
            cl["twofold_volume"] = cl.get("twofold_volume", 0) + len(assign)
            errf = np.abs(f1 - f0)
            badf = ~(errf <= 2 * tf)
            if badf.any():
                i = int(np.argmax(badf))
                V("twofold_volume", {"err": float(errf[i]), "tol": float(2 * tf[i])}, assign=tag, grain=sel_names[i], op=S[assign[i]][0])

        # 3-grain sets: every assignment
        stride = max(1, n // 6)
        for g in range(6):
            idx = [(g * stride + j * 7) % n for j in range(3)]
            if len(set(idx)) < 3:
                continue
            sel = [names[i] for i in idx]
            fsel = alph.volumes("geometric", 3)
            for assign in itertools.product(range(4), repeat=3):
                check(sel, A[idx], fsel, assign, f"set{g}:" + "".join(map(str, assign)))
                res["states"] += 1
                if multi and any(assign):
                    res["nontrivial"].append(digest(key, g, assign))
        # whole texture: patterns
        for pat in PATTERNS:
            if pat.startswith("all"):
                assign = [{"a": 1, "b": 2, "c": 3}[pat[-1]]] * n
            elif pat == "alt":
                assign = [i % 2 for i in range(n)]
            else:
                assign = [i % 4 for i in range(n)]
            check(names, A, f, assign, pat)
            res["states"] += 1
            if multi:
                res["nontrivial"].append(digest(key, pat))
    res["outcomes"].append(digest(np.round(df0, 9)))
    res["obs"] = digest(*obs)
    res["sample"] = {"case": key, "n_grains": n}
    return res
