"""C16 - SCSV save/read round trip is lossless; invalid schemas and data are refused.

Engine B on files: every enumerated (schema, data set) is written with save_scsv, the file
on disk is inspected, read back with read_scsv and compared with the reference model
(ref/scsv_ref.py: a list of typed rows).  A second family applies every single-fault
corruption from the statement's list to a valid schema / data set / saved file and demands
the SCSV error.

Reporting policy: a violating point reports only if none of its immediate sub-points (one
deviation reset to its default letter) shows a violation of the same (clause, form, column
type); the deviation-bounded enumeration is downward closed, so every minimal violating
point is enumerated and reports itself with a key that names exactly its deviating letters.
"""

import csv
import hashlib
import io
import itertools
import math
import os
import random

import numpy as np

from mc import alph
from mc.runner import digest, empty_result, workdir
from ref import scsv_ref as REF

PID = "C16"
RULE = (
    "round-trip family: a point = (type tuple, delimiter, missing marker, field-name letter, unit letter, "
    "dict/terse route, fill letter per field, cell letter per column, row count, container); all points with "
    "<= k axes off their default letter are enumerated (type tuples: all 155 tuples of 1-3 fields plus a "
    "pairwise-covering set for 4..8 fields; default tuple = one field of each type), restricted to representable "
    "cells and to schemas that satisfy the documented constraints; the featured cell of column j sits in row "
    "j mod n, the other rows hold boring distinct values. One case = one schema (s <= k deviations) evaluating "
    "every data set within the remaining budget k-s, plus one packed data set per schema that holds every "
    "representable cell letter of every column (a screen for schema x cell letter beyond the budget; failures "
    "are localised through single-letter points). A schema whose plain data set already fails as a whole "
    "(save/read raises) is reported once and its other data sets are counted as masked. Fault family: every "
    "single-fault corruption of a set of valid bases - schema faults through save_scsv and write_scsv_header, "
    "data faults through save_scsv, file faults (edited on disk) through read_scsv; each fault is first "
    "confirmed to be a fault by the reference model. A violating point is reported only if no immediate "
    "sub-point (one deviation reset) violates the same (clause, form, column type): the enumeration is downward "
    "closed, so each minimal violating point reports itself and its key lists exactly its deviating letters. "
    "A data set is non-trivial when its file holds a missing marker, a quoted or non-ASCII token, a non-finite "
    "number, or its schema deviates from the default; distinct = distinct file content (<= 64 ids kept per "
    "case, the full count is in notes.nontrivial_roundtrips)."
)
ASSUMPTIONS = [
    "the reference model ref/scsv_ref.py (typed rows; cell == fill -> fill, where NaN equals NaN per component "
    "and -0.0 == 0.0 as for Python ==; otherwise the identical typed value of the exact Python type, NaN ~ NaN, "
    "sign of zero preserved) states the property correctly",
    "the Python csv module (strict dialect, no skipinitialspace) is trusted to tokenise the written file body "
    "for the on-disk missing-marker clause; str()/float()/complex() are exact inverses for Python scalars",
    "boolean columns are exempt from the missing-marker clauses (documented: they cannot have missing values)",
    "a multi-character delimiter must be refused, but TypeError is tolerated besides the SCSV error (pinned by "
    "tests/test_scsv.py::test_validate_schema and absent from the statement's fault list)",
    "a partial file must be absent only after the wrong-column-count refusal (the only place where the code "
    "unlinks); files left by other refusals are counted in notes, not reported",
    "a violation whose (clause, form, column type) also occurs at an immediate sub-point is attributed to that "
    "sub-point and not reported again (a second defect of the same form is masked at such super-points only)",
    "file system writes under the per-process work directory are reliable; the locale encoding is UTF-8",
]
BOUND = {
    "quick": "<= 2 deviations; rows in {1,2,3} (+ 10^4 rows once per default schema); packed data set of 24 rows per schema; fault bases: default tuple "
    "x all delimiters / markers, all 1- and 2-field tuples",
    "thorough": "<= 3 deviations (pairwise 4..8-field tuples: <= 2); rows in {1,2,3,10^4} (10^4 rows = packed "
    "cycle of all cell letters, combined with <= 1 further deviation); fault bases additionally all 3-field and "
    "pairwise tuples",
}

T0 = "sifbc"
TCODE = {"s": "string", "i": "integer", "f": "float", "b": "boolean", "c": "complex"}
NAN = float("nan")
INF = float("inf")
ABSENT = "<absent>"
CHUNK = 16  # data sets per case: small, so that the simplest-first order still spreads over the workers
PACKED_ROWS = 24
BIG_ROWS = 10000


class Skip(Exception):
    """Point outside the statement's domain (unrepresentable cell / inexpressible terse schema)."""


# ------------------------------------------------------------------------------ alphabets

DELIMS = [("comma", ","), ("semicolon", ";"), ("tab", "\t"), ("pipe", "|"), ("space", " "), ("colon", ":")]
MISSINGS = [("dash", "-"), ("empty", ""), ("NA", "NA"), ("NaN", "NaN"), ("dash2", "--")]
NAMES = [("plain", "c0"), ("unicode", "größe_Δ"), ("underscore", "_c0"), ("keyword", "class"), ("yamlbool", "no"), ("astral", "\U0001d700x")]
UNITS = [("absent", ABSENT), ("percent", "percent"), ("dots", "..."), ("pct", "%"), ("astral", "\U0001d707m")]
VIAS = ["dict", "terse"]
CONTAINERS = ["list", "tuple", "ndarray", "array2d"]
ROWS = [3, 1, 2]
FILLS = {
    "s": [
        ("absent", ABSENT),
        ("empty", ""),
        ("NA", "N/A"),
        ("hash", "#"),
        ("null", "null"),
        ("zero", "0"),
        ("true", "true"),
        ("hashmid", "a #b"),
        ("mapping", "a: b"),
        ("astral", "\U0001f6ab"),  # a character outside the Basic Multilingual Plane (seed C16f)
    ],
    "i": [("m999", -999), ("zero", 0), ("s_m999", "-999")],
    "f": [("sNaN", "NaN"), ("nan", NAN), ("m1", -1.0), ("inf", INF), ("s_m1", "-1.0")],
    "b": [("absent", ABSENT), ("True", True)],
    "c": [("sNaN", "NaN"), ("zero", 0), ("cnan", complex(NAN, 0.0))],
}
CELLS = {
    "s": [
        "plain",
        "empty",
        "fill",
        "has_delim",
        "starts_delim",
        "ends_delim",
        "dquote",
        "dquote1",
        "squote",
        "hash",
        "hash_mid",
        "colon",
        "dashes3",
        "unicode",
        "marker_prefix",
        "marker_suffix",
        "dash1",
        "nanword",
        "noneword",
        "numlike",
        "inner_ws",
        "mix",
        "gen",
    ],
    "i": ["seven", "zero", "m1", "big", "mbig", "fill", "gen"],
    "f": ["tenth", "nan", "inf", "minf", "tiny", "mzero", "zero", "denorm", "max", "third", "whole", "e22", "fill", "gen"],
    "b": ["T", "F"],
    "c": [
        "z12",
        "zero",
        "nan0",
        "re1_nan",
        "nannan",
        "nan_im1",
        "infminf",
        "mzero_re",
        "mzero_im",
        "tiny",
        "real25",
        "fill",
        "gen",
    ],
}
D_DELIM = dict(DELIMS)
D_MISS = dict(MISSINGS)
D_NAME = dict(NAMES)
D_UNIT = dict(UNITS)
D_FILL = {t: dict(v) for t, v in FILLS.items()}
DEF_FILL = {t: v[0][0] for t, v in FILLS.items()}
DEF_CELL = {t: v[0] for t, v in CELLS.items()}
GLOBAL_AXES = [
    ("delim", [n for n, _ in DELIMS]),
    ("missing", [n for n, _ in MISSINGS]),
    ("names", [n for n, _ in NAMES]),
    ("unit", [n for n, _ in UNITS]),
    ("via", VIAS),
]
GLOBAL_DEFAULT = {a: ls[0] for a, ls in GLOBAL_AXES}

_GEN = {}


def gen_letters():
    """The generic letters: the only thing VERIF_SEED changes."""
    s = alph.SEED
    if s not in _GEN:
        rng = random.Random(160016 + s)
        pool = "abcXYZ019 ,;|:\t\"'#-_.=/\\()[]{}!?*&%$@~^<>éΔ漢ß"
        txt = "g" + "".join(rng.choice(pool) for _ in range(10)) + "g"

        def fl():
            return rng.uniform(-1.0, 1.0) * 10.0 ** rng.randint(-200, 200)

        _GEN[s] = {"s": txt, "i": rng.randrange(-(10**15), 10**15), "f": fl(), "c": complex(fl(), fl())}
    return _GEN[s]


def cell_value(t, name, d, m, fillv):
    """Value of a cell letter in context (delimiter d, marker m, typed fill of its field)."""
    if name == "gen":
        return gen_letters()[t]
    if name == "fill":
        if fillv is None:
            raise Skip
        return fillv
    if t == "s":
        return {
            "plain": "abc",
            "empty": "",
            "has_delim": f"a{d}b",
            "starts_delim": f"{d}x",
            "ends_delim": f"x{d}",
            "dquote": 'say "hi"',
            "dquote1": '"',
            "squote": "it's",
            "hash": "#tag",
            "hash_mid": "a #b",
            "colon": "k: v",
            "dashes3": "---",
            "unicode": "žluťoučký Δ 漢字",
            "marker_prefix": (m + "x") if m else "x-",
            "marker_suffix": "x" + m,
            "dash1": "-",
            "nanword": "NaN",
            "noneword": "None",
            "numlike": "007",
            "inner_ws": "a  b",
            "mix": f'x"{d}"y',
        }[name]
    if t == "i":
        return {"seven": 7, "zero": 0, "m1": -1, "big": 10**20, "mbig": -(10**20)}[name]
    if t == "f":
        return {
            "tenth": 0.1,
            "nan": NAN,
            "inf": INF,
            "minf": -INF,
            "tiny": 1e-300,
            "mzero": -0.0,
            "zero": 0.0,
            "denorm": 5e-324,
            "max": 1.7976931348623157e308,
            "third": 1.0 / 3.0,
            "whole": 3.0,
            "e22": 1e22,
        }[name]
    if t == "b":
        return name == "T"
    if t == "c":
        return {
            "z12": complex(1.0, 2.0),
            "zero": complex(0.0, 0.0),
            "nan0": complex(NAN, 0.0),
            "re1_nan": complex(1.0, NAN),
            "nannan": complex(NAN, NAN),
            "nan_im1": complex(NAN, 1.0),
            "infminf": complex(INF, -INF),
            "mzero_re": complex(-0.0, 1.0),
            "mzero_im": complex(1.0, -0.0),
            "tiny": complex(1e-300, -5e-324),
            "real25": complex(2.5, 0.0),
        }[name]
    raise KeyError((t, name))


def filler(t, r):
    """Boring, pairwise distinct cell for the non-featured rows (never a fill, never a marker)."""
    if t == "s":
        return f"r{r}"
    if t == "i":
        return 100 + r
    if t == "f":
        return r + 0.5
    if t == "b":
        return bool(r % 2)
    return complex(float(r), 0.25)


def pairwise_tuples(n):
    """Deterministic greedy pairwise cover: every pair of positions sees every pair of types."""
    sym = "sifbc"
    unc = {(i, j, a, b) for i in range(n) for j in range(i + 1, n) for a in sym for b in sym}
    out = []
    step = 0
    while unc:
        i, j, a, b = min(unc)
        t = [None] * n
        t[i], t[j] = a, b
        for p in range(n):
            if t[p] is not None:
                continue
            best, bestc = None, -1
            for q in range(len(sym)):
                c = sym[(q + step + p) % len(sym)]
                gain = 0
                for o in range(n):
                    if t[o] is None or o == p:
                        continue
                    key = (o, p, t[o], c) if o < p else (p, o, c, t[o])
                    gain += key in unc
                if gain > bestc:
                    best, bestc = c, gain
            t[p] = best
        for x in range(n):
            for y in range(x + 1, n):
                unc.discard((x, y, t[x], t[y]))
        out.append("".join(t))
        step += 1
    return out


_TUPLES = {}


def all_tuples():
    if "all" not in _TUPLES:
        small = ["".join(p) for n in (1, 2, 3) for p in itertools.product("sifbc", repeat=n)]
        pw = []
        for n in range(4, 9):
            pw += pairwise_tuples(n)
        seen = set()
        lst = []
        for t in [T0] + small + pw:
            if t not in seen:
                seen.add(t)
                lst.append(t)
        _TUPLES["all"] = lst
        _TUPLES["small"] = small
        _TUPLES["pw"] = [t for t in pw if t != T0]
    return _TUPLES["all"]


def ALPHABETS():
    all_tuples()
    a = {
        "type_tuples": len(_TUPLES["all"]),
        "type_tuples_1to3_fields": len(_TUPLES["small"]),
        "type_tuples_pairwise_4to8_fields": len(set(_TUPLES["pw"])),
        "delimiters": len(DELIMS),
        "missing_markers": len(MISSINGS),
        "field_name_letters": len(NAMES),
        "unit_letters": len(UNITS),
        "routes": len(VIAS),
        "containers": len(CONTAINERS),
        "row_counts": len(ROWS) + 1,
    }
    for t in "sifbc":
        a["fills_" + TCODE[t]] = len(FILLS[t])
        a["cells_" + TCODE[t]] = len(CELLS[t])
    return a


# ------------------------------------------------------------------------------ points


def default_spec(T):
    s = dict(GLOBAL_DEFAULT)
    s["types"] = T
    s["fills"] = [DEF_FILL[t] for t in T]
    return s


def default_point(spec):
    p = dict(spec)
    p["fills"] = list(spec["fills"])
    p["cells"] = [DEF_CELL[t] for t in spec["types"]]
    p["rows"] = 3
    p["container"] = "list"
    p["packed"] = 0
    return p


def pt_id(p):
    return (
        p["types"],
        p["delim"],
        p["missing"],
        p["names"],
        p["unit"],
        p["via"],
        tuple(p["fills"]),
        tuple(p["cells"]),
        p["rows"],
        p["container"],
        p["packed"],
        p.get("allfill", 0),
    )


def terse_fill_text(value):
    if value is ABSENT:
        return None
    if isinstance(value, str):
        txt = value
    elif isinstance(value, float):
        txt = repr(value)
    else:
        txt = str(value)
    if any(ch in txt for ch in ":()"):
        raise Skip
    return txt


def expressible(spec):
    """Terse route: only schemas the terse syntax can state (documented limitations)."""
    if spec["via"] != "terse":
        return True
    d, m = D_DELIM[spec["delim"]], D_MISS[spec["missing"]]
    if d in ":dm" or m == "" or any(ch in m for ch in ":m"):
        return False
    try:
        for t, f in zip(spec["types"], spec["fills"]):
            terse_fill_text(D_FILL[t][f])
    except Skip:
        return False
    u = D_UNIT[spec["unit"]]
    if u is not ABSENT and any(ch in u for ch in ":()"):
        return False
    return True


def build_schema(p):
    """-> (schema handed to the implementation builder, terse text or None, expected schema)."""
    T = p["types"]
    d, m = D_DELIM[p["delim"]], D_MISS[p["missing"]]
    fields = []
    specs = []
    for j, t in enumerate(T):
        name = D_NAME[p["names"]] if j == 0 else f"c{j}"
        fv = D_FILL[t][p["fills"][j]]
        unit = D_UNIT[p["unit"]] if j == 0 else ABSENT
        f = {"name": name, "type": TCODE[t]}
        if fv is not ABSENT:
            f["fill"] = fv
        if unit is not ABSENT:
            f["unit"] = unit
        fields.append(f)
        if p["via"] == "terse":
            specs.append((name, t, terse_fill_text(fv), None if unit is ABSENT else unit))
    schema = {"delimiter": d, "missing": m, "fields": fields}
    if p["via"] != "terse":
        return schema, None, schema
    if not expressible(p):
        raise Skip
    parts = []
    exp = []
    for name, t, ftxt, unit in specs:
        if t == "s" and ftxt is None and unit is None:
            spec = ""  # default-type shortcut: name()
        else:
            spec = t
            if ftxt is not None or unit is not None:
                spec += ":" + (ftxt or "")
            if unit is not None:
                spec += ":" + unit
        parts.append(f"{name}({spec})")
        exp.append((name, TCODE[t], ftxt, unit))
    text = f"d{d}m{m}:" + "".join(parts)
    return None, text, REF.expand_terse(d, m, exp)


def build_data(p, expected_schema):
    """-> (columns as plain lists, letters[j][r] (None = filler row))."""
    T = p["types"]
    d, m = D_DELIM[p["delim"]], D_MISS[p["missing"]]
    fills = [REF.typed_fill(f) for f in expected_schema["fields"]]
    n = p["packed"] or p["rows"]
    cols, letters = [], []
    for j, t in enumerate(T):
        ft = TCODE[t]
        if p.get("allfill"):
            # three rows whose middle row holds, in EVERY column, the cell equal to the
            # column's fill: the whole line is written as missing markers only (with an
            # empty marker and a whitespace delimiter it looks like a blank line)
            v = fills[j]
            if v is None or not REF.representable(ft, v, m):
                raise Skip
            cols.append([filler(t, 0), v, filler(t, 2)])
            letters.append([None, "=fill", None])
            continue
        if p["packed"]:
            avail = []
            for nm in CELLS[t]:
                try:
                    v = cell_value(t, nm, d, m, fills[j])
                except Skip:
                    continue
                if REF.representable(ft, v, m):
                    avail.append((nm, v))
            col = [avail[(r + j) % len(avail)][1] for r in range(n)]
            let = [avail[(r + j) % len(avail)][0] for r in range(n)]
        else:
            v = cell_value(t, p["cells"][j], d, m, fills[j])
            if not REF.representable(ft, v, m):
                raise Skip
            feat = j % n
            col = [v if r == feat else filler(t, r) for r in range(n)]
            let = [p["cells"][j] if r == feat else None for r in range(n)]
        cols.append(col)
        letters.append(let)
    return cols, letters


def containerise(p, cols):
    c = p["container"]
    if c == "list":
        return [list(x) for x in cols]
    if c == "tuple":
        return tuple(tuple(x) for x in cols)
    if c == "array2d":
        # the whole table as ONE 2-D array of shape (n_columns, n_rows) where the cells allow it
        # (seed C16i: truthiness of the data container)
        try:
            a2 = np.asarray([list(x) for x in cols])
            if a2.ndim == 2 and a2.dtype != object and a2.dtype.kind in "iufcb" and all(t != "s" for t in p["types"]) and len(set(p["types"])) == 1:
                return a2
        except (OverflowError, ValueError):
            pass
    out = []
    for t, x in zip(p["types"], cols):
        if t == "s":
            out.append(list(x))
            continue
        try:
            a = np.asarray(x)
        except OverflowError:
            a = None
        if a is None or a.dtype == object:
            out.append(list(x))
        else:
            out.append(a)
    return out


def schema_axes(T):
    ax = [(a, ls[1:]) for a, ls in GLOBAL_AXES]
    for j, t in enumerate(T):
        ax.append((("fill", j), [n for n, _ in FILLS[t][1:]]))
    return ax


def apply_schema_dev(spec, axis, letter):
    if isinstance(axis, tuple):
        spec["fills"][axis[1]] = letter
    else:
        spec[axis] = letter


def data_points(spec, d, tier, s_total):
    """All data-level deviation sets of size <= d (dicts axis -> letter), simplest first."""
    T = spec["types"]
    axes = []
    for j, t in enumerate(T):
        axes.append((("cell", j), CELLS[t][1:]))
    axes.append(("rows", ROWS[1:]))
    axes.append(("container", CONTAINERS[1:]))
    pts = []
    for k in range(0, d + 1):
        for combo in itertools.combinations(range(len(axes)), k):
            for letters in itertools.product(*[axes[i][1] for i in combo]):
                pts.append({axes[i][0]: l for i, l in zip(combo, letters)})
    if tier != "thorough" and d >= 1 and s_total == 0:
        pts.append({"rows": BIG_ROWS})  # the large file once per default schema in the quick tier too
    if len(T) == 1 and T[0] != "s" and s_total <= 2 and not (tier == "thorough" and d >= 1 and s_total <= 1):
        # a long table WITHOUT a text column (every delimiter / missing-marker letter): seed C16h,
        # a bulk write path for >= 1000 rows that by-passes the csv quoting rules
        pts.append({"rows": BIG_ROWS})
    if tier == "thorough":
        # 10^4 rows: a packed cycle of all letters; combined with <= 1 further deviation
        if d >= 1 and s_total <= 1:
            pts.append({"rows": BIG_ROWS})
        if d >= 2 and s_total == 0:
            for c in CONTAINERS[1:]:
                pts.append({"rows": BIG_ROWS, "container": c})
    return pts


def make_point(spec, dev):
    p = default_point(spec)
    for a, l in dev.items():
        if isinstance(a, tuple):
            p["cells"][a[1]] = l
        else:
            p[a] = l
    if p["rows"] == BIG_ROWS:
        p["packed"] = BIG_ROWS
    return p


def subpoints(p):
    """Immediate sub-points: one deviation reset to its default letter."""
    T = p["types"]
    subs = []
    if p["packed"]:
        q = default_point(p)
        q["fills"] = list(p["fills"])
        subs.append(q)  # the base point of the same schema
        return subs

    def clone():
        q = dict(p)
        q["fills"] = list(p["fills"])
        q["cells"] = list(p["cells"])
        return q

    for a, dv in GLOBAL_DEFAULT.items():
        if p[a] != dv:
            q = clone()
            q[a] = dv
            subs.append(q)
    if p["rows"] != 3:
        q = clone()
        q["rows"] = 3
        subs.append(q)
    if p["container"] != "list":
        q = clone()
        q["container"] = "list"
        subs.append(q)
    for j, t in enumerate(T):
        if p["fills"][j] != DEF_FILL[t]:
            q = clone()
            q["fills"][j] = DEF_FILL[t]
            subs.append(q)
        if p["cells"][j] != DEF_CELL[t]:
            q = clone()
            q["cells"][j] = DEF_CELL[t]
            subs.append(q)
    if T != T0:
        # transplant the per-field deviations onto the default tuple (one field per type)
        q = clone()
        q["types"] = T0
        q["fills"] = [DEF_FILL[t] for t in T0]
        q["cells"] = [DEF_CELL[t] for t in T0]
        ok = True
        for j, t in enumerate(T):
            k = T0.index(t)
            for ax in ("fills", "cells"):
                dv = DEF_FILL[t] if ax == "fills" else DEF_CELL[t]
                if p[ax][j] != dv:
                    if q[ax][k] != dv and q[ax][k] != p[ax][j]:
                        ok = False
                    q[ax][k] = p[ax][j]
        if ok:
            subs.append(q)
    return subs


# ------------------------------------------------------------------------------ evaluation


class Run:
    def __init__(self, res):
        self.res = res
        self.cache = {}
        self.h = hashlib.sha256()
        self.dir = workdir(PID)
        self.path = os.path.join(self.dir, "rt.scsv")
        self.seen_viol = set()
        self.nt = set()
        self.oc = set()

    def clause(self, c, k=1):
        self.res["clauses"][c] = self.res["clauses"].get(c, 0) + k

    def note(self, c, k=1):
        self.res["notes"][c] = self.res["notes"].get(c, 0) + k

    def obs(self, *parts):
        for x in parts:
            self.h.update(repr(x).encode("utf-8", "backslashreplace"))
            self.h.update(b"\0")

    def emit(self, clause, key, detail):
        vid = (clause, tuple(sorted(key.items())))
        if vid in self.seen_viol:
            return
        self.seen_viol.add(vid)
        self.res["viol"].append({"clause": clause, "key": key, "detail": detail})

    # ---- one round trip
    def evaluate(self, p):
        """-> list of raw violations (dicts) or None if the point is outside the domain."""
        pid = pt_id(p)
        if pid in self.cache:
            return self.cache[pid]
        try:
            out = self._evaluate(p)
        except Skip:
            out = None
            self.note("points_outside_domain_skipped")
        self.cache[pid] = out
        return out

    def _evaluate(self, p):
        res = self.res
        raws = []
        T = p["types"]
        impl_schema, terse, exp_schema = build_schema(p)
        cols, letters = build_data(p, exp_schema)
        ref = REF.RefFile().save(exp_schema, cols)  # RefError here = harness bug (point must be valid)
        want_names, want_cols = ref.read()
        mask = ref.missing_mask()
        d = exp_schema["delimiter"]
        m = exp_schema["missing"]

        def raw(clause, form, col=None, row=None, **detail):
            raws.append({"clause": clause, "form": form, "col": col, "row": row, "letters": letters, "detail": detail})

        if terse is not None:
            res["n"] += 1
            res["trans"] += 1
            self.clause("terse_parse")
            try:
                impl_schema = IO.parse_scsv_schema(terse)
            except Exception as e:
                raw("terse_parse", "parse_raises_" + type(e).__name__, terse=terse, msg=str(e)[:200])
                self.obs("terse", terse, type(e).__name__)
                return raws
            self.obs("terse", terse, impl_schema)
            if impl_schema != exp_schema:
                raw("terse_parse", "wrong_expansion", terse=terse, got=repr(impl_schema)[:300], want=repr(exp_schema)[:300])
                return raws
        data = containerise(p, cols)
        small = len(cols[0]) <= 3
        repro = f"save_scsv(p, {impl_schema!r}, {cols!r}); read_scsv(p)"[:600] if small else f"{impl_schema!r}"[:300]

        if os.path.exists(self.path):
            os.remove(self.path)
        res["n"] += 1
        res["trans"] += 1
        self.clause("rt_noraise")
        try:
            IO.save_scsv(self.path, impl_schema, data)
        except Exception as e:
            raw("rt_noraise", "save_raises_" + type(e).__name__, msg=str(getattr(e, "message", e))[:200], repro=repro)
            self.obs("save", type(e).__name__)
            self.oc.add(digest("save", type(e).__name__))
            return raws
        res["states"] += 1
        with open(self.path, encoding="utf-8", newline="") as f:
            text = f.read()
        self.obs(text if small else digest(text))

        # ---- on disk: cells equal to the fill must be the missing marker
        toks = None
        lines = text.split("\n")
        try:
            end = lines.index("---", 1)
            body = [ln for ln in lines[end + 1 :]]
            while body and body[-1] == "":
                body.pop()
            toks = list(csv.reader(body, delimiter=d))
        except (ValueError, csv.Error):
            toks = None
        nrows = len(cols[0])
        if toks is not None and len(toks) == nrows + 1 and all(len(r) == len(T) for r in toks):
            for j, t in enumerate(T):
                if t == "b":
                    continue
                for r in range(nrows):
                    if mask[r][j]:
                        self.clause("ondisk_missing")
                        if toks[r + 1][j].strip() != m:
                            raw(
                                "ondisk_missing",
                                "fill_cell_written_verbatim",
                                col=j,
                                row=r,
                                token=toks[r + 1][j],
                                marker=m,
                                repro=repro,
                            )
                            break
        else:
            self.note("ondisk_body_not_tokenised")

        # ---- read back
        res["n"] += 1
        res["trans"] += 1
        self.clause("rt_noraise")
        try:
            back = IO.read_scsv(self.path)
        except Exception as e:
            raw("rt_noraise", "read_raises_" + type(e).__name__, msg=str(getattr(e, "message", e))[:200], repro=repro)
            self.obs("read", type(e).__name__)
            self.oc.add(digest("read", type(e).__name__))
            return raws
        got_names = list(getattr(back, "_fields", ()))
        got_cols = [tuple(c) for c in back]
        self.obs(got_names, got_cols if small else digest(repr(got_cols)))
        self.clause("rt_names")
        if got_names != want_names:
            raw("rt_names", "field_names_differ", got=got_names, want=want_names, repro=repro)
            return raws
        if len(got_cols) != len(want_cols) or any(len(c) != nrows for c in got_cols):
            raw("rt_values", "row_count_differs", got=[len(c) for c in got_cols], want=nrows, repro=repro)
            return raws
        per_col_bad = 0
        for j, t in enumerate(T):
            ft = TCODE[t]
            self.clause("rt_values", nrows)
            for r in range(nrows):
                g, w = got_cols[j][r], want_cols[j][r]
                if REF.same_value(ft, g, w):
                    continue
                isfill = bool(mask[r][j])
                if type(g) is not REF.PYTYPE[ft]:
                    form = "wrong_python_type"
                elif isfill and ft == "string":
                    form = "str_fill_reads_back_None" if g == "None" else "str_fill_reads_back_altered"
                elif isfill:
                    form = "fill_not_restored"
                elif ref.fills[j] is not None and REF.same_value(ft, g, ref.fills[j]):
                    form = "cell_replaced_by_fill"
                elif ft == "string" and g == w.strip() and g != w:
                    form = "stripped"
                elif ft in ("float", "complex") and complex(g) == complex(w):
                    form = "sign_of_zero_lost"
                else:
                    form = "value_changed"
                raw("rt_values", form, col=j, row=r, got=repr(g), want=repr(w), repro=repro)
                per_col_bad += 1
                if per_col_bad >= 64:
                    break
        # ---- bookkeeping: non-trivial / outcomes
        flat_missing = any(x for row in mask for x in row if x)
        special = any(
            (isinstance(c, str) and (d in c or '"' in c or not c.isascii()))
            or (isinstance(c, float) and not math.isfinite(c))
            or (isinstance(c, complex) and not (math.isfinite(c.real) and math.isfinite(c.imag)))
            for col in cols
            for c in col
        )
        deviates = T != T0 or any(p[a] != dv for a, dv in GLOBAL_DEFAULT.items()) or any(
            p["fills"][j] != DEF_FILL[t] for j, t in enumerate(T)
        )
        if flat_missing or special or deviates:
            self.note("nontrivial_roundtrips")
            if len(self.nt) < 64:
                self.nt.add(digest(text))
        for j, t in enumerate(T):
            for r in range(nrows):
                if letters[j][r] is not None:
                    self.oc.add(digest(t, letters[j][r], bool(mask[r][j]), p["delim"] if t == "s" else ""))
        self.oc.add(digest("ok" if not raws else sorted({x["form"] for x in raws})))
        return raws

    # ---- reporting
    @staticmethod
    def sig(p, v):
        ft = TCODE[p["types"][v["col"]]] if v["col"] is not None else None
        return (v["clause"], v["form"], ft)

    def vkey(self, p, v):
        T = p["types"]
        k = {"form": v["form"], "delim": p["delim"], "missing": p["missing"]}
        if T != T0:
            k["types"] = T
        for a in ("names", "unit", "via"):
            if p[a] != GLOBAL_DEFAULT[a]:
                k[a] = p[a]
        if p["container"] != "list":
            k["container"] = p["container"]
        if p["rows"] != 3:
            k["rows"] = p["rows"]
        if p["packed"] and p["rows"] != BIG_ROWS:
            k["packed"] = 1
        if p.get("allfill"):
            k["allfill"] = 1
        for j, t in enumerate(T):
            if p["fills"][j] != DEF_FILL[t]:
                a = "fill_" + TCODE[t]
                k[a] = (k[a] + "+" if a in k else "") + p["fills"][j]
            if not p["packed"] and p["cells"][j] != DEF_CELL[t]:
                a = "cell_" + TCODE[t]
                k[a] = (k[a] + "+" if a in k else "") + p["cells"][j]
        j = v["col"]
        if j is not None:
            n = len(T)
            k["ftype"] = TCODE[T[j]]
            k["fill"] = p["fills"][j]
            let = v["letters"][j][v["row"]] if v["row"] is not None else None
            k["cell"] = let if let is not None else "filler"
            k["pos"] = "only" if n == 1 else "first" if j == 0 else "last" if j == n - 1 else "middle"
        return k

    def sigs_of(self, q):
        """Violation signatures of a sub-point (an enumerated point of some other case): taken from
        this case's own evaluations if present, otherwise from an uncounted, memoised probe."""
        pid = pt_id(q)
        if pid in self.cache:
            r = self.cache[pid]
            return {self.sig(q, v) for v in r} if r else set()
        return probe(q) or set()

    def report(self, p, raws):
        if not raws:
            return
        need = {self.sig(p, v) for v in raws}
        explained = set()
        subs = subpoints(p)
        subs.sort(key=lambda q: pt_id(q) not in self.cache)  # already evaluated sub-points first
        for q in subs:
            if need <= explained:
                break
            explained.update(self.sigs_of(q))
        for v in raws:
            if self.sig(p, v) in explained:
                self.note("violations_explained_by_a_subpoint")
                continue
            self.emit(v["clause"], self.vkey(p, v), v["detail"])

    def run_point(self, p):
        raws = self.evaluate(p)
        if raws is None:
            return
        if not p["packed"]:
            self.report(p, raws)
            return
        if not raws:
            return
        # packed data set: a screen for (schema x every cell letter); localise through single-letter points
        base = subpoints(p)[0]
        br = self.evaluate(base) or []
        explained = {self.sig(base, v) for v in br}
        rest = [v for v in raws if self.sig(p, v) not in explained]
        if not rest:
            self.note("violations_explained_by_a_subpoint", len(raws))
            return
        T = p["types"]
        cands = set()
        seen = set()
        for v in rest:
            if v["col"] is not None and v["row"] is not None:
                j, nm = v["col"], v["letters"][v["col"]][v["row"]]
                # shortcut: the same letter already fails the same way under the default schema
                q0 = default_point(default_spec(T0))
                q0["cells"][T0.index(T[j])] = nm
                if self.sig(p, v) in (probe(q0) or ()):
                    self.note("violations_explained_by_a_subpoint")
                    seen.add(self.sig(p, v))
                    continue
                cands.add((j, nm))
            else:
                for j, t in enumerate(T):
                    for nm in CELLS[t][1:]:
                        cands.add((j, nm))
        for j, nm in sorted(cands):
            if nm == DEF_CELL[T[j]]:
                continue
            q = default_point(p)
            q["fills"] = list(p["fills"])
            q["cells"][j] = nm
            r = self.evaluate(q)
            if r:
                seen.update(self.sig(q, v) for v in r)
                self.report(q, r)
        for v in rest:
            if self.sig(p, v) not in seen:
                self.emit(v["clause"], self.vkey(p, v), v["detail"])


IO = None
ERR = None
_PROBE = {}


def probe(q):
    """Signatures of the violations of point q, evaluated outside any case's accounting (no counters,
    no observation digest) and memoised per process: a pure function of the point, so the memo only
    saves time. None = q is outside the domain."""
    pid = pt_id(q)
    if pid not in _PROBE:
        scratch = Run(empty_result())
        try:
            r = scratch._evaluate(q)
            _PROBE[pid] = frozenset(Run.sig(q, v) for v in r)
        except Skip:
            _PROBE[pid] = None
    return _PROBE[pid]


def warmup():
    global IO, ERR
    from pydrex import exceptions as _err
    from pydrex import io as _io

    IO, ERR = _io, _err
    from mc.runner import quiet_pydrex

    quiet_pydrex()  # pydrex installs its console handler on import: silence it now
    all_tuples()
    gen_letters()


# ------------------------------------------------------------------------------ cases


def spec_key(spec):
    return {
        "fam": "rt",
        "types": spec["types"],
        "delim": spec["delim"],
        "missing": spec["missing"],
        "names": spec["names"],
        "unit": spec["unit"],
        "via": spec["via"],
        "fills": ",".join(spec["fills"]),
    }


def key_spec(key):
    s = {a: key[a] for a in ("types", "delim", "missing", "names", "unit", "via")}
    s["fills"] = key["fills"].split(",")
    return s


def fault_bases(tier):
    all_tuples()
    bases = [(T0, "comma", "dash")]
    bases += [(T0, dn, "dash") for dn, _ in DELIMS[1:]]
    bases += [(T0, "comma", mn) for mn, _ in MISSINGS[1:]]
    small = [t for t in _TUPLES["small"] if len(t) <= (2 if tier == "quick" else 3)]
    bases += [(t, "comma", "dash") for t in small]
    if tier != "quick":
        bases += [(t, "comma", "dash") for t in _TUPLES["pw"]]
    return bases


def gen_cases(tier, seed):
    k = 2 if tier == "quick" else 3
    all_tuples()
    pw = set(_TUPLES["pw"])
    out = []
    order = 0
    for T in all_tuples():
        base_s = 0 if T == T0 else 1
        kk = 2 if (T in pw and tier != "quick") else k
        axes = schema_axes(T)
        for s_extra in range(0, kk - base_s + 1):
            for combo in itertools.combinations(range(len(axes)), s_extra):
                for letters in itertools.product(*[axes[i][1] for i in combo]):
                    spec = default_spec(T)
                    for i, l in zip(combo, letters):
                        apply_schema_dev(spec, axes[i][0], l)
                    if not expressible(spec):
                        continue
                    s_total = base_s + s_extra
                    d = kk - s_total
                    npts = len(data_points(spec, d, tier, s_total))
                    parts = max(1, -(-npts // CHUNK))
                    for part in range(parts):
                        key = spec_key(spec)
                        key.update(d=d, s=s_total, part=part, parts=parts)
                        out.append((s_total, order, key))
                        order += 1
    out.sort(key=lambda x: (x[0], x[1]))
    keys = [x[2] for x in out]
    # fault family after the plain round trips of the same simplicity
    fk = [{"fam": "fault", "types": t, "delim": dn, "missing": mn} for t, dn, mn in fault_bases(tier)]
    lit = [{"fam": "terse_literal", "i": i} for i in range(len(TERSE_LITERALS))]
    n0 = sum(1 for x in out if x[0] == 0)
    return keys[:n0] + lit + fk + keys[n0:]


def run_case(key):
    res = empty_result()
    run = Run(res)
    if key["fam"] == "rt":
        run_rt(key, run)
    elif key["fam"] == "fault":
        run_fault(key, run)
    else:
        run_literal(key, run)
    res["nontrivial"] = sorted(run.nt)
    res["outcomes"] = sorted(run.oc)
    res["obs"] = run.h.hexdigest()[:16]
    return res


def run_rt(key, run):
    spec = key_spec(key)
    tier = alph.TIER
    pts = data_points(spec, key["d"], tier, key["s"])
    mine = pts[key["part"] :: key["parts"]]
    base = default_point(spec)
    b = run.evaluate(base)
    if b and any(v["col"] is None and v["clause"] != "ondisk_missing" for v in b):
        # the schema alone makes the file unusable: every data set fails the same way
        if key["part"] == 0:
            run.run_point(base)
        run.note("data_sets_masked_by_unusable_schema", len(mine))
        run.res["sample"] = {"case": key, "data_sets": 1, "masked": len(mine)}
        return
    for dev in mine:
        run.run_point(make_point(spec, dev))
    if key["part"] == 0:
        p = default_point(spec)
        p["packed"] = PACKED_ROWS
        run.run_point(p)
        # all-fill row on the sub-schema of the numeric columns (boolean cells are never
        # written as missing; a string cell equal to an empty marker is not representable)
        idx = [j for j, t in enumerate(spec["types"]) if t in "ifc"]
        if len(idx) >= 2 or (len(idx) == 1 and len(spec["types"]) == 1):
            spec2 = dict(spec)
            spec2["types"] = "".join(spec["types"][j] for j in idx) if isinstance(spec["types"], str) else tuple(spec["types"][j] for j in idx)
            spec2["fills"] = [spec["fills"][j] for j in idx]
            if expressible(spec2):
                p2 = default_point(spec2)
                p2["allfill"] = 1
                try:
                    run.run_point(p2)
                except Skip:
                    pass
    run.res["sample"] = {"case": key, "data_sets": len(mine) + (1 if key["part"] == 0 else 0)}


# ------------------------------------------------------------------------------ terse literals

TERSE_LITERALS = [
    (
        "d,m-:colA(s)colB(s:N/A:...)colC()colD(i:999999)colE(f:NaN:%)",
        (",", "-", [("colA", "string", None, None), ("colB", "string", "N/A", "..."), ("colC", None, None, None),
                    ("colD", "integer", "999999", None), ("colE", "float", "NaN", "%")]),
    ),
    (
        "d\tmNA:a(s::percent)b(b:True)c(c:NaN)",
        ("\t", "NA", [("a", "string", None, "percent"), ("b", "boolean", "True", None), ("c", "complex", "NaN", None)]),
    ),
    (
        "d|m--:x()y(i:-999)z(f:inf)w(b)",
        ("|", "--", [("x", None, None, None), ("y", "integer", "-999", None), ("z", "float", "inf", None),
                     ("w", "boolean", None, None)]),
    ),
]


def run_literal(key, run):
    text, (d, m, specs) = TERSE_LITERALS[key["i"]]
    want = REF.expand_terse(d, m, specs)
    res = run.res
    res["n"] += 1
    res["trans"] += 1
    res["states"] += 1
    run.clause("terse_parse")
    try:
        got = IO.parse_scsv_schema(text)
    except Exception as e:
        run.emit("terse_parse", {"form": "parse_raises_" + type(e).__name__, "literal": key["i"]}, {"terse": text})
        run.obs(type(e).__name__)
        return
    run.obs(got)
    run.oc.add(digest(got))
    run.nt.add(digest(text))
    if got != want:
        run.emit("terse_parse", {"form": "wrong_expansion", "literal": key["i"]}, {"terse": text, "got": repr(got), "want": repr(want)})
    res["sample"] = {"case": key, "terse": text}


# ------------------------------------------------------------------------------ fault family

MULTICHAR_DELIM_TOLERATED = ("TypeError",)  # besides the SCSV error; see ASSUMPTIONS
BAD_NAMES = [("space", "bad name"), ("digit", "1abc"), ("empty", ""), ("dash", "a-b")]
BAD_CELLS = {
    "i": [("word", "abc"), ("fraction", 0.5), ("bool", True), ("none", None)],
    "f": [("word", "abc"), ("none", None), ("trail", "1.5x")],
    "c": [("word", "abc"), ("i_unit", "1+2i"), ("none", None)],
}
BAD_TOKENS = {"i": [("word", "abc"), ("fraction", "0.5")], "f": [("word", "abc"), ("trail", "1.5x")], "c": [("word", "abc"), ("i_unit", "1+2i")]}


def _copy_schema(s):
    return {k: ([dict(f) for f in v] if k == "fields" else v) for k, v in s.items()}


def schema_faults(T, schema):
    """(fault, extra key, corrupted schema)."""
    d = schema["delimiter"]
    for k in ("delimiter", "missing", "fields"):
        s = _copy_schema(schema)
        del s[k]
        yield "no_key_" + k, {}, s
    s = _copy_schema(schema)
    s["fields"] = []
    yield "fields_empty", {}, s
    for j, t in enumerate(T):
        for bn, bv in BAD_NAMES:
            s = _copy_schema(schema)
            s["fields"][j]["name"] = bv
            yield "name_not_identifier", {"bad": bn, "ftype": TCODE[t]}, s
        s = _copy_schema(schema)
        del s["fields"][j]["name"]
        yield "field_without_name", {"ftype": TCODE[t]}, s
        s = _copy_schema(schema)
        s["fields"][j]["type"] = "text"
        yield "type_unknown", {"ftype": TCODE[t]}, s
        if t in "ifc":
            s = _copy_schema(schema)
            del s["fields"][j]["fill"]
            yield "numeric_without_fill", {"ftype": TCODE[t]}, s
    s = _copy_schema(schema)
    s["missing"] = d
    yield "delim_equals_missing", {}, s
    for bn, bv in (("prefix", d + "-"), ("suffix", "-" + d), ("infix", "N" + d + "A")):
        s = _copy_schema(schema)
        s["missing"] = bv
        yield "delim_in_missing", {"bad": bn}, s
    for bn, bv in (("doubled", d + d), ("with_space", d + " ") if d != " " else ("with_comma", d + ",")):
        s = _copy_schema(schema)
        s["delimiter"] = bv
        if bv in s["missing"]:
            continue
        yield "delim_multichar", {"bad": bn}, s


def data_faults(T, cols):
    n = len(T)
    if n >= 2:
        for j in range(n):
            c = [list(x) for x in cols]
            c[j] = c[j][:-1]
            yield "column_short", {"pos": "first" if j == 0 else "other"}, c, False
            c = [list(x) for x in cols]
            c[j] = c[j] + [c[j][-1]]
            yield "column_long", {"pos": "first" if j == 0 else "other"}, c, False
    c = [list(x) for x in cols][:-1]
    yield "columns_fewer", {"ncols_given": "zero" if n == 1 else "n-1", "rows": "three"}, c, True
    c = [list(x) for x in cols] + [["x"] * len(cols[0])]
    yield "columns_more", {"rows": "three"}, c, True
    if n >= 2:
        yield "columns_fewer", {"ncols_given": "n-1", "rows": "zero"}, [[] for _ in range(n - 1)], True
    yield "columns_more", {"rows": "zero"}, [[] for _ in range(n + 1)], True
    for j, t in enumerate(T):
        if t not in BAD_CELLS:
            continue
        for r in sorted({0, len(cols[0]) - 1}):
            for bn, bv in BAD_CELLS[t]:
                c = [list(x) for x in cols]
                c[j][r] = bv
                yield "cell_unparseable", {"ftype": TCODE[t], "bad": bn, "row": "first" if r == 0 else "last"}, c, False
        # an unparseable cell that COMPARES EQUAL (==, same hash) to a valid cell earlier in the
        # same column (seed C16h: per-cell validation memoised on the value)
        if t == "i" and len(cols[0]) >= 2:
            c = [list(x) for x in cols]
            c[j][0], c[j][-1] = 1, True
            yield "cell_unparseable", {"ftype": TCODE[t], "bad": "bool_after_equal_int", "row": "last"}, c, False
            c = [list(x) for x in cols]
            c[j][0], c[j][-1] = 0, False
            yield "cell_unparseable", {"ftype": TCODE[t], "bad": "bool_after_equal_int0", "row": "last"}, c, False


def file_faults(T, schema, text):
    """(fault, extra key, corrupted file text) - single-fault edits of a valid saved file."""
    d = schema["delimiter"]
    lines = text.split("\n")
    end = lines.index("---", 1)
    head, body = lines[: end + 1], [ln for ln in lines[end + 1 :] if ln != ""]
    toks = list(csv.reader(body, delimiter=d))
    names = [f["name"] for f in schema["fields"]]
    # header lines by role (k-th "- name:" / "type:" line belongs to field k), whatever the quoting style
    name_ln = [i for i, ln in enumerate(head) if ln.lstrip().startswith("- name:")]
    type_ln = [i for i, ln in enumerate(head) if ln.lstrip().startswith("type:")]
    if len(name_ln) != len(T) or len(type_ln) != len(T):
        raise AssertionError("header layout not understood by the fault editor")

    def setline(i, txt):
        hd = list(head)
        hd[i] = txt
        return hd

    def join(hd, tk):
        buf = io.StringIO()
        csv.writer(buf, delimiter=d, lineterminator="\n").writerows(tk)
        return "\n".join(hd) + "\n" + buf.getvalue()

    def tcopy():
        return [list(r) for r in toks]

    for j, t in enumerate(T):
        if t in BAD_TOKENS:
            for r in sorted({1, len(toks) - 1}):
                for bn, bv in BAD_TOKENS[t]:
                    tk = tcopy()
                    tk[r][j] = bv
                    yield "cell_unparseable", {"ftype": TCODE[t], "bad": bn, "row": "first" if r == 1 else "last"}, join(head, tk)
        tk = tcopy()
        tk[0][j] = tk[0][j] + "x"
        yield "header_name_changed", {"pos": "first" if j == 0 else "other"}, join(head, tk)
        hd = setline(name_ln[j], f"    - name: {names[j]}x")
        yield "schema_name_changed", {"pos": "first" if j == 0 else "other"}, join(hd, toks)
        if t in "ifc":
            idx = [i for i, ln in enumerate(head) if ln.startswith("      fill:")]
            # the k-th fill line belongs to the k-th field that has one
            have = [jj for jj, f in enumerate(schema["fields"]) if "fill" in f]
            i = idx[have.index(j)]
            yield "numeric_without_fill", {"ftype": TCODE[t]}, join(head[:i] + head[i + 1 :], toks)
    if len(T) >= 2:
        tk = tcopy()
        tk[0][0], tk[0][1] = tk[0][1], tk[0][0]
        yield "header_names_swapped", {}, join(head, tk)
        tk = tcopy()
        tk[0] = tk[0][:-1]
        yield "header_name_dropped", {}, join(head, tk)
        for r in sorted({1, len(toks) - 1}):
            tk = tcopy()
            tk[r] = tk[r][:-1]
            yield "row_short", {"row": "first" if r == 1 else "last"}, join(head, tk)
    for r in sorted({1, len(toks) - 1}):
        tk = tcopy()
        tk[r] = tk[r] + ["extra"]
        yield "row_long", {"row": "first" if r == 1 else "last"}, join(head, tk)
    for k in ("delimiter", "missing"):
        hd = [ln for ln in head if not ln.startswith(f"  {k}:")]
        yield "no_key_" + k, {}, join(hd, toks)
    i = head.index("  fields:")
    yield "no_key_fields", {}, join(head[:i] + ["---"], toks)
    hd = [f"  missing: '{d}'" if ln.startswith("  missing:") else ln for ln in head]
    yield "delim_equals_missing", {}, join(hd, toks)
    hd = [f"  missing: '-{d}'" if ln.startswith("  missing:") else ln for ln in head]
    yield "delim_in_missing", {"bad": "suffix"}, join(hd, toks)
    yield "type_unknown", {"ftype": TCODE[T[0]]}, join(setline(type_ln[0], "      type: text"), toks)
    hd = setline(name_ln[0], "    - name: bad name")
    tk = tcopy()
    tk[0][0] = "bad name"
    yield "name_not_identifier", {"bad": "space", "ftype": TCODE[T[0]]}, join(hd, tk)


def run_fault(key, run):
    res = run.res
    T = key["types"]
    spec = default_spec(T)
    spec["delim"], spec["missing"] = key["delim"], key["missing"]
    p = default_point(spec)
    schema, _, _ = build_schema(p)
    cols, _ = build_data(p, schema)
    REF.RefFile().save(schema, cols)  # the base is valid
    path = run.path
    basek = {}  # the base is in the detail, not in the key: one key per (fault, letters)

    def expect_error(clause, fault, where, extra, fn, tolerated=(), unlink=False):
        """Call fn(); it must raise the SCSV error."""
        if os.path.exists(path):
            os.remove(path)
        res["n"] += 1
        res["trans"] += 1
        run.clause(clause)
        exc = None
        try:
            fn()
        except ERR.SCSVError:
            exc = "SCSVError"
        except Exception as e:
            exc = type(e).__name__
        run.obs(fault, where, sorted(extra.items()), exc)
        run.oc.add(digest(fault, where, exc))
        run.nt.add(digest(T, key["delim"], key["missing"], fault, where, sorted(extra.items())))
        k = {"fault": fault, "where": where}
        k.update(extra)
        if exc is None:
            k["form"] = "accepted"
        elif exc != "SCSVError" and exc not in tolerated:
            k["form"] = "raises_" + exc
        elif exc != "SCSVError":
            run.note("tolerated_" + exc + "_for_" + fault)
        if "form" in k:
            run.emit(clause, k, {"base": {"types": T, "delim": key["delim"], "missing": key["missing"]}})
        if where == "save":
            left = os.path.exists(path)
            if unlink:
                run.clause("fault_unlink")
                if left and exc is not None:
                    kk = {"fault": fault, "where": where, "form": "partial_file_left"}
                    kk.update(extra)
                    run.emit("fault_unlink", kk, {"base": {"types": T}})
            elif left and exc is not None:
                run.note("partial_file_left_where_no_unlink_is_promised")

    # the base itself must round trip, otherwise its corruptions say nothing
    try:
        IO.save_scsv(path, schema, cols)
        with open(path, encoding="utf-8", newline="") as f:
            text = f.read()
        IO.read_scsv(path)
    except Exception:
        run.note("fault_base_unusable")
        res["sample"] = {"case": key, "unusable": True}
        return
    res["n"] += 2
    res["states"] += 1

    for fault, extra, bad in schema_faults(T, schema):
        try:
            REF.validate_schema(bad)
            raise AssertionError(f"reference model accepts fault {fault}")
        except REF.RefError:
            pass
        tol = MULTICHAR_DELIM_TOLERATED if fault == "delim_multichar" else ()
        e = dict(basek)
        e.update(extra)
        expect_error("fault_save", fault, "save", e, lambda: IO.save_scsv(path, bad, cols), tolerated=tol)
        if fault != "delim_multichar":  # the header writer alone cannot see the csv dialect
            expect_error("fault_header", fault, "header", e, lambda: IO.write_scsv_header(io.StringIO(), bad))
    for fault, extra, bad, unlink in data_faults(T, cols):
        try:
            REF.RefFile().save(schema, bad)
            raise AssertionError(f"reference model accepts fault {fault}")
        except REF.RefError:
            pass
        e = dict(basek)
        e.update(extra)
        expect_error("fault_save", fault, "save", e, lambda: IO.save_scsv(path, schema, bad), unlink=unlink)
    fpath = os.path.join(run.dir, "fault.scsv")
    for fault, extra, btext in file_faults(T, schema, text):
        if btext == text:
            raise AssertionError(f"fault editor produced no change for {fault}")
        with open(fpath, "w", encoding="utf-8", newline="") as f:
            f.write(btext)
        res["states"] += 1
        e = dict(basek)
        e.update(extra)
        expect_error("fault_read", fault, "read", e, lambda: IO.read_scsv(fpath))
    if os.path.exists(fpath):
        os.remove(fpath)
    res["sample"] = {"case": key, "faults": res["trans"]}
