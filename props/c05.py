"""C05 - texture depends on the strain path, not on the strain rate (engine B, lock-step
twin driven by k.L on a time axis compressed by 1/k)."""

import numpy as np

from mc import alph
from mc.runner import digest, empty_result
from props import _hist as H

PID = "C05"
RULE = (
    "explicit-state BFS over update histories with a lock-step twin: roots = fabric(6) x "
    "dislocation-type regime(2) x all points within <=1 deviation of the default over (texture(8: one an int64 array, one in Fortran order, one a transposed view), "
    "volumes(3, one an int64 array), n_grains(5: 5,2,3,8,1), parameter set {default, M*=200 & chi=0.9, chi=0, M*=0}); EVERY k in "
    "{1e-16,1e-15,1e-12,1e-8,1e-4,1e-2,10,1e3} (quick tier: on the deviated roots k in {1e-16,1e-8,10,1e3}); ALL sequences to depth 2 (quick) / 3 (thorough) over "
    "the 12 update letters (6 flows incl. time- and position-dependent x 2 strain increments) one interval run backwards in time and one gradient typed int64 (strain rate with half-integer entries), plus "
    "the partition letters (a span split into 1,2,5 updates), plus callables that hand out STORED "
    "array objects (constants and views into a piecewise-constant table; depth 2, 9 k incl. 1), plus the "
    "increments of F and of the texture over single updates of strain 5e-6 and 1e-7 for every k. After every update the twin's stored "
    "snapshot and returned F are compared with the primary's. Non-trivial: k != 1 and the update "
    "changed the texture; distinct = reached state."
)
ASSUMPTIONS = [
    "verdict uses the statement's accumulated ODE bound 5e-3 + 1e-3 (N + 2 strain); the observed maximum deviation is reported (rounding level on the present code)",
    "grains touching the discontinuous sliding threshold / zero-slip guard during an update are gated (see _hist.twin_explore) and counted",
    "the derivatives seam (non-dimensionalised D has unit largest |eigenvalue|) is an observer: reported, decided only together with the black-box comparison",
]
BOUND = {"quick": "8 k letters, depth 2, <=1 root deviation, n_grains <= 8", "thorough": "depth 3, <=1 root deviation"}

KS = ["1e-16", "1e-15", "1e-12", "1e-8", "1e-4", "1e-2", "10", "1e3"]
KS_DEV = ["1e-16", "1e-8", "10", "1e3"]
PRMS = ["default", "M200chi0.9", "chi0", "M0"]


def ALPHABETS():
    return {"k": len(KS), "update_letters": len(H.STEP_LETTERS) + len(BACK_LETTERS)}


def warmup():
    H.warm()


def gen_cases(tier, seed):
    keys = []
    for k in H.root_keys(tier, ["disl", "yield"], dev=1, prms=PRMS):
        default_root = (k["tex"], k["vol"], k["ng"], k["prm"]) == ("random", "uniform", 5, "default")
        # quick tier: every k on the default root of each fabric x regime, the 4 corner values
        # of the k range on the deviated roots (keeps the quick tier near 3 minutes)
        for kk in KS if (default_root or tier != "quick") else KS_DEV:
            keys.append(dict(k, k=kk, depth=2 if tier == "quick" else 3))
    for fab in alph.FABRICS:
        for kk in KS:
            keys.append(dict(part="chain", fab=fab, reg="disl", tex="random", vol="geometric", ng=8, prm="default", k=kk))
    # environment answer "the callable hands out the SAME array object on every call" (a stored
    # constant, or a view into a stored table of a piecewise-constant history) instead of a
    # fresh array: an update that rescales its inputs in place corrupts the caller's history
    # by a k-dependent amount (seed C05d)
    for fab in alph.FABRICS:
        for reg in ("disl", "yield"):
            for kk in KS + ["1"]:
                keys.append(dict(part="stored", fab=fab, reg=reg, tex="random", vol="uniform", ng=5, prm="default", k=kk))
    # very short updates: the INCREMENT of F and of the texture over one update of strain 5e-6
    # must not depend on the rate (at k = 1e3 the interval is 5e-9 long; seed C05g: intervals
    # compared with an absolute tolerance in time units)
    for fab in alph.FABRICS:
        for reg in ("disl", "yield"):
            keys.append(dict(part="tiny", fab=fab, reg=reg, tex="random", vol="uniform", ng=5, prm="default", k="all"))
    return keys


BACK_LETTERS = [("gen", -0.3), ("i64_ss1", 0.6)]  # an interval run backwards in time; an int64-typed gradient
STORED_LETTERS = [("st_gen", 0.3), ("st_ss", 0.3), ("st_table", 0.6)]


def stored_flows(k):
    """Flows whose callable returns stored array objects (k = rate factor; the time axis is
    compressed by 1/k).  Built afresh for every case."""
    g = H.flow("gen").const
    ss = H.flow("ss_xz").const
    base = {"st_gen": 1.7 * g, "st_ss": 0.6 * ss}
    out = {}
    for nm, L0 in base.items():
        Lk = k * np.array(L0)
        out[nm] = H.Flow(nm, lambda t, x, Lk=Lk: Lk, lambda t: np.zeros(3), const=k * np.array(L0))
    tab0 = np.stack([0.6 * ss, 1.7 * g, H.flow("ps_xy").const])
    tab = k * tab0

    def Lt(t, x, tab=tab):
        return tab[min(2, max(0, int(np.floor(k * t / 0.25))))]

    out["st_table"] = H.Flow("st_table", Lt, lambda t: np.zeros(3))
    out["_stored"] = [(k * np.array(L0), out[nm].L(0.0, None)) for nm, L0 in base.items()] + [(k * tab0, tab)]
    return out


def run_tiny(key):
    res = empty_result()
    ph, fb = alph.FABRICS[key["fab"]]
    prm = H.params_for(ph, key["prm"])
    fl = H.flow("gen")
    F0 = H.f0("generic")
    obs = []
    for dt in (5e-6, 1e-7):
        m = H.build_mineral(key)
        Fa = np.asarray(H.update(m, prm, F0.copy(), fl, 0.0, dt))
        dFa, dAa, dfa = Fa - F0, m.orientations[-1] - m.orientations[0], m.fractions[-1] - m.fractions[0]
        res["n"] += 1
        for kk in KS:
            kf = float(kk)
            mt = H.build_mineral(key)
            res["n"] += 1
            res["trans"] += 1
            res["clauses"]["increment_same"] = res["clauses"].get("increment_same", 0) + 1
            try:
                Fb = np.asarray(H.update(mt, prm, F0.copy(), H.scaled_flow(fl, kf), 0.0, dt / kf))
            except Exception as e:
                H.V(res, key, "increment_same", {"exception": type(e).__name__, "msg": str(e)[:150]}, k=kk, dt=dt)
                continue
            dFb, dAb, dfb = Fb - F0, mt.orientations[-1] - mt.orientations[0], mt.fractions[-1] - mt.fractions[0]
            devs = {
                "F": float(np.abs(dFb - dFa).max() / np.abs(dFa).max()),
                "orientations": float(np.abs(dAb - dAa).max() / max(np.abs(dAa).max(), 1e-300)),
                "fractions": float(np.abs(dfb - dfa).max() / max(np.abs(dfa).max(), 1e-300)),
            }
            res["notes"]["max_increment_rel_dev"] = max(res["notes"].get("max_increment_rel_dev", 0.0), *devs.values())
            if not max(devs.values()) <= 1e-3:
                H.V(res, key, "increment_same", dict(devs, increment_F=float(np.abs(dFa).max()), increment_F_twin=float(np.abs(dFb).max())), k=kk, dt=dt)
            obs.append(Fb)
        res["states"] += 1
    res["nontrivial"].append(digest(key))
    res["outcomes"].append(digest(*[np.round(o, 12) for o in obs]))
    res["obs"] = digest(*obs)
    res["sample"] = {"case": key}
    return res


def run_case(key):
    if key["part"] == "tiny":
        return run_tiny(key)
    res = empty_result()
    ph, fb = alph.FABRICS[key["fab"]]
    n = key["ng"]
    kf = float(key["k"])
    prm = H.params_for(ph, key["prm"])
    m, mt = H.build_mineral(key), H.build_mineral(key)
    F0 = H.f0("generic")
    root = H.State(m, F0)
    root.twin = {"m": mt, "F": F0.copy()}
    cl = res["clauses"]

    def compare(parent, child, hist, clean):
        bound = H.ode_bound(child.N, child.strain)
        a, b = child.m, child.twin["m"]
        if clean.any():
            cl["texture_same"] = cl.get("texture_same", 0) + int(clean.sum())
            dA = float(np.abs(b.orientations[-1] - a.orientations[-1])[clean].max())
            if not dA <= bound:
                H.V(res, key, "texture_same", {"dev": dA, "bound": bound}, hist=hist)
            res["notes"]["max_texture_dev"] = max(res["notes"].get("max_texture_dev", 0.0), dA if np.isfinite(dA) else 0.0)
        if clean.all():
            cl["fractions_same"] = cl.get("fractions_same", 0) + 1
            df = float(np.abs(b.fractions[-1] - a.fractions[-1]).max())
            if not df <= bound:
                H.V(res, key, "fractions_same", {"dev": df, "bound": bound}, hist=hist)
            res["notes"]["max_fraction_dev"] = max(res["notes"].get("max_fraction_dev", 0.0), df if np.isfinite(df) else 0.0)
        cl["F_same"] = cl.get("F_same", 0) + 1
        dF = float(np.abs(child.twin["F"] - child.F).max() / max(1.0, np.abs(child.F).max()))
        if not dF <= bound:
            H.V(res, key, "F_same", {"dev": dF, "bound": bound}, hist=hist)
        res["notes"]["max_F_dev"] = max(res["notes"].get("max_F_dev", 0.0), dF if np.isfinite(dF) else 0.0)
        # seam: D handed to the solver is non-dimensional (unit largest |eigenvalue|)
        for mon in child.aux["mon"]:
            if mon.seen_der:
                vals = [d[0] for d in mon.der if d[2] in (4, 6) and np.isfinite(d[0])]
                if vals:
                    cl["seam_unit_strain_rate"] = cl.get("seam_unit_strain_rate", 0) + 1
                    dev = max(abs(v - 1.0) for v in vals)
                    res["notes"]["max_seam_strain_rate_dev"] = max(res["notes"].get("max_seam_strain_rate_dev", 0.0), dev)
        if (kf != 1.0 or key["part"] == "stored") and not np.array_equal(a.orientations[-1], a.orientations[-2]):
            res["nontrivial"].append(H.canon(child))

    fa = H.flow
    fb_ = lambda nm: H.scaled_flow(H.flow(nm), kf)  # noqa
    tb = lambda t: t / kf  # noqa
    if key["part"] == "stored":
        A, B = stored_flows(1.0), stored_flows(kf)
        obs = H.twin_explore(res, key, prm, prm, root, STORED_LETTERS, 2, A.__getitem__, B.__getitem__, tb, compare)
        # observer: were the caller's stored arrays left alone?
        for fl in (A, B):
            for want, have in fl["_stored"]:
                if not np.array_equal(want, have):
                    res["notes"]["caller_arrays_modified"] = res["notes"].get("caller_arrays_modified", 0) + 1
    elif key["part"] == "hist":
        obs = H.twin_explore(res, key, prm, prm, root, H.STEP_LETTERS + BACK_LETTERS, key["depth"], fa, fb_, tb, compare)
    else:
        obs = []
        for fl in ("ss_xz", "time", "pos"):
            for kparts in (1, 2, 5):
                letters = [(fl, 1.0 / kparts)]
                r2 = root.clone()
                obs += H.twin_explore(res, key, prm, prm, r2, letters, kparts, fa, fb_, tb, compare)
    res["outcomes"] += obs[:40]
    res["obs"] = digest(*obs)
    res["sample"] = {"case": key, "states": res["states"], "transitions": res["trans"]}
    return res
