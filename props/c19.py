"""C19 - parameter records and configuration files mean what they declare.

(a) records   every field of DefaultParams (frozen, hashable, dict round trip, documented
              defaults); every class found in pydrex.mock by introspection: the literals
              DECLARED in the class body (read with inspect + ast, never through the class
              machinery) vs attribute access on an instance and vs instance.as_dict().
(b) configs   TOML files generated from a complete valid template (every key present, every
              value different from its default) with optional keys removed, parsed with
              pydrex.io.parse_config and compared with a plain-Python reference of what the
              file declares / what the documentation gives as default.
(c) faults    single-fault configurations, each of which must raise ConfigError.

Documentation used as the oracle for optional keys and defaults (quoted):
  src/pydrex/data/specs/spec.toml
    :2-3  "Exactly one valid combination of fields from the [input] section are required,
           the rest is optional."
    :5    "Simulation name is optional but recommended."
    :20-25 input method 3 "Pre-computed pathline files ... These can be either plain text SCSV
           files or binary NPZ files. ... If a field called 't' is also present, it will be
           used for the timestamps. Alternatively, a fixed timestep for all paths can be
           specified using `timestep`."   (=> timestep optional for method 3 only)
    :42-44 "a maximum strain threshold can bee provided" (strain_final optional, no default)
    :49   "Optional output directory, will be created if missing. This is also relative to
           the parent directory of the TOML file, unless an absolute path is given."
    :54-56 "Optional choice of mineral phases to include in raw output. ... By default, raw
           output for all supported minerals is saved."
    :59-61 "Optional choice of mineral phases to include in diagnostic output. ... By default,
           diagnostic output for all supported minerals is saved."
    :68-69 "Optional pathline output files ... (by default, they are not produced)."
    :73-74 "Optional logging level for log files. This sets the log level for all log files,
           overriding the default value of "WARNING"."
    :88   "Optional initial olivine fabric. A-type by default."
    :82-107 every [parameters] key is introduced with "Optional ..."
  src/pydrex/data/specs/steady_mesh.toml
    :52   "Default values for simulation paramers are given below."  (stress_exponent 1.5,
           deformation_exponent 3.5, gbm_mobility 125, gbs_threshold 0.3,
           nucleation_efficiency 5.0 -- the same numbers appear in spec.toml; number_of_grains
           and the phase lists differ between the two files and DefaultParams, so for those,
           and for every key the spec files do not mention, the documented default is the
           value of pydrex.core.DefaultParams: "For an overview of available parameters, see
           `pydrex.core.DefaultParams`", pydrex/__init__.py)
"""

import ast
import dataclasses
import inspect
import itertools
import json
import math
import os
import textwrap

from mc import runner
from mc.runner import digest, empty_result

PID = "C19"
RULE = (
    "records: every DefaultParams field (setattr/delattr rejected, hash, as_dict round trip, "
    "single-field replacement, documented default) and every class discovered in pydrex.mock "
    "(each literal declared in the class body, read by ast, vs attribute access and as_dict). "
    "configs: complete template TOML (all values non-default) x [block out: every subset of the "
    "6 optional [output] keys + optional `name` (2^7) + '[output] table absent'] x [block prm: "
    "every subset of size <=k of the [parameters] keys removed + '[parameters] table absent', "
    "with [output] full and empty] x every subset of the per-mode optional [input] keys x 3 input "
    "modes (mesh+locations_final, built-in velocity gradient callable+locations_initial, "
    "pathline files) x 3 phase lists x fabric A-E; block inputs: every built-in velocity "
    "callable, pathline file kinds (npz / npz+scsv / scsv), relative and absolute file names. "
    "configuration file named relative to a working directory changed after import (2 ways x modes x phase lists x 3 omission sets); "
    "phases declared by ordinal (5 lists incl. mixed name/ordinal) x modes x fabric(2) x 6 omission sets: ConfigError or a parse satisfying every clause; "
    "faults: single-fault list x modes x phase lists, each must raise ConfigError. A config case "
    "is non-trivial when at least one key is omitted or faulted; distinct = distinct generated "
    "TOML text (mode, omitted set, phases, fabric, edit)."
)
ASSUMPTIONS = [
    "tomllib is trusted to read the generated TOML (each generated text is re-read and compared with the model it was generated from)",
    "the documented defaults are those quoted in the module docstring (spec.toml / steady_mesh.toml); where the documentation gives no value the field value of DefaultParams is the default; keys without any documented default (name, directory, anisotropy, strain_final, timestep) are not compared when omitted",
    "'all minerals' as default of raw_output/diagnostics is accepted either as all simulated phases or as all members of MineralPhase",
    "the declared value of a preset is the literal assigned (or annotated-assigned) to a simple name in the class body; equality is Python == (1 equals 1.0) with enumeration members compared by type and value",
    "wrong element counts of the 2-tuple valued parameters (prefactors, activation energies/volumes) and non-numeric timestep/strain_final are only observed (reported in notes), because the statement names no constraint for them",
]
BOUND = {
    "quick": "all subsets of <=2 removed [parameters] keys; all 2^7 subsets of optional [output]/name keys; all subsets of optional [input] keys per mode",
    "thorough": "as quick with all subsets of <=3 removed [parameters] keys",
}

# ------------------------------------------------------------------------------------------
# documented defaults (independent of the code: transcribed from the spec files, see above)
# ------------------------------------------------------------------------------------------
DOC_PARAM_DEFAULTS = {
    "initial_olivine_fabric": ("olivine_A", "spec.toml:88 'Optional initial olivine fabric. A-type by default.'"),
    "stress_exponent": (1.5, "steady_mesh.toml:52 'Default values for simulation paramers are given below.' :60 stress_exponent = 1.5"),
    "deformation_exponent": (3.5, "steady_mesh.toml:52/:62 deformation_exponent = 3.5"),
    "gbm_mobility": (125, "steady_mesh.toml:52/:64 gbm_mobility = 125"),
    "gbs_threshold": (0.3, "steady_mesh.toml:52/:66 gbs_threshold = 0.3"),
    "nucleation_efficiency": (5.0, "steady_mesh.toml:52/:68 nucleation_efficiency = 5.0"),
}
DOC_LOG_LEVEL = "WARNING"  # spec.toml:74

PHASE_DEFS = {
    "ol": (["olivine"], [1.0]),
    "ol_en": (["olivine", "enstatite"], [0.7, 0.3]),
    "en_ol": (["enstatite", "olivine"], [0.3, 0.7]),
    "en": (["enstatite"], [1.0]),  # context of the fault list only
    # phases given by ordinal (the phase parser is declared for str | MineralPhase | int)
    "ol#": ([0], [1.0]),
    "ol_en#": ([0, 1], [0.7, 0.3]),
    "en_ol#": ([1, 0], [0.3, 0.7]),
    "ol_en#mix": (["olivine", 1], [0.7, 0.3]),
    "en_ol#mix": ([1, "olivine"], [0.3, 0.7]),
}
ORD_PHASES = ["ol#", "ol_en#", "en_ol#", "ol_en#mix", "en_ol#mix"]
ORD_NAMES = {0: "olivine", 1: "enstatite"}


def _is_ord(x):
    return isinstance(x, int) and not isinstance(x, bool) and x in ORD_NAMES
PHASES = ["ol", "ol_en", "en_ol"]
FABRICS = ["A", "B", "C", "D", "E"]
OUT_KEYS = ["directory", "raw_output", "diagnostics", "anisotropy", "paths", "log_level"]
MODES = {
    # mode: (required keys, optional keys)
    "mesh": (["mesh", "locations_final", "timestep"], ["strain_final"]),
    "velgrad": (["velocity_gradient", "locations_initial", "timestep"], ["strain_final"]),
    "paths": (["paths"], ["timestep", "strain_final"]),
}
VG_LETTERS = {
    "simple_shear_2d": ["simple_shear_2d", "Y", "X", 5e-6],
    "simple_shear_2d_xz": ["simple_shear_2d", "X", "Z", 1.0],
    "cell_2d": ["cell_2d", "X", "Z", 1.5],
    "cell_2d_edge": ["cell_2d", "X", "Y", 0.5, 4.0],
    "corner_2d": ["corner_2d", "X", "Z", 2.0],
}
PATH_LETTERS = {
    "npz": ["path001.npz", "path002.npz"],
    "npz1": ["path001.npz"],
    "npz_abs": ["@ABS/path001.npz"],
    "npz_scsv": ["path001.npz", "path003.scsv"],  # the example of spec.toml:40
    "scsv": ["path003.scsv"],
}
MESH_LETTERS = {"tiny_rel": 4, "repo_abs": 1705, "copy_rel": 1705}  # letter: number of mesh points


class NS:
    pass


_PX = None


def px():
    """pydrex pieces, imported once."""
    global _PX
    if _PX is None:
        import pydrex  # noqa: F401
        from pydrex import core, exceptions, io, mock, velocity

        ns = NS()
        ns.pkgdir = os.path.dirname(os.path.abspath(pydrex.__file__))
        ns.core, ns.io, ns.mock, ns.exc, ns.velocity = core, io, mock, exceptions, velocity
        ns.DefaultParams = core.DefaultParams
        ns.MineralPhase = core.MineralPhase
        ns.MineralFabric = core.MineralFabric
        ns.ConfigError = exceptions.ConfigError
        _PX = ns
        runner.quiet_pydrex()
    return _PX


def warmup():
    px()


def param_fields():
    """[(name, default)] of the parameter record, in declaration order (introspection)."""
    return [(f.name, f.default) for f in dataclasses.fields(px().DefaultParams)]


def preset_classes():
    m = px().mock
    out = []
    for name, obj in sorted(vars(m).items()):
        if inspect.isclass(obj) and getattr(obj, "__module__", None) == m.__name__:
            out.append(name)
    return out


def ALPHABETS():
    return {
        "DefaultParams_fields": len(param_fields()),
        "preset_classes": len(preset_classes()),
        "input_modes": len(MODES),
        "optional_input_subsets": sum(2 ** len(o) for _, o in MODES.values()),
        "optional_output_subsets": 2 ** (len(OUT_KEYS) + 1) + 2,
        "phase_lists": len(PHASES),
        "fabrics": len(FABRICS),
        "velocity_callable_letters": len(VG_LETTERS),
        "pathline_file_letters": len(PATH_LETTERS),
        "fault_families": len(FAULTS),
    }


# ------------------------------------------------------------------------------------------
# small helpers
# ------------------------------------------------------------------------------------------
def is_seq(x):
    return isinstance(x, (list, tuple))


def same(a, b):
    """Python equality, element-wise over list/tuple (a list equals a tuple), enumeration
    members must agree in type."""
    import enum

    if is_seq(a) or is_seq(b):
        if not (is_seq(a) and is_seq(b)) or len(a) != len(b):
            return False
        return all(same(x, y) for x, y in zip(a, b))
    if isinstance(a, enum.Enum) or isinstance(b, enum.Enum):
        return type(a) is type(b) and a == b
    if isinstance(a, bool) != isinstance(b, bool):
        return False
    if isinstance(a, float) and isinstance(b, float) and math.isnan(a) and math.isnan(b):
        return True
    try:
        return bool(a == b)
    except Exception:
        return False


def short(x, n=120):
    s = repr(x)
    return s if len(s) <= n else s[: n - 3] + "..."


def toml_value(v):
    if isinstance(v, bool):
        return "true" if v else "false"
    if isinstance(v, str):
        return json.dumps(v)
    if isinstance(v, int):
        return str(v)
    if isinstance(v, float):
        r = repr(v)
        if "e" in r and "." not in r.split("e")[0]:
            m, e = r.split("e")
            r = m + ".0e" + e
        return r
    if is_seq(v):
        return "[" + ", ".join(toml_value(x) for x in v) + "]"
    raise TypeError(v)


def toml_text(model):
    lines = []
    for k, v in model.items():
        if not isinstance(v, dict):
            lines.append(f"{k} = {toml_value(v)}")
    for k, v in model.items():
        if isinstance(v, dict):
            lines.append(f"\n[{k}]")
            for kk, vv in v.items():
                lines.append(f"{kk} = {toml_value(vv)}")
    return "\n".join(lines) + "\n"


def alt_value(name, default):
    """A deterministic valid value different from the default (template value)."""
    from mc import alph

    g = int(alph.SEED) % 64  # the only seed-dependent ("generic") letters of this check
    if isinstance(default, bool):
        return not default
    if isinstance(default, int):
        return default + 7 + g
    if isinstance(default, float):
        return round(default * 0.9 + 0.0625 + g / 1024, 6)
    if is_seq(default):
        return [float(x) * (1.5 + g / 64) + 0.25 * (i + 1) * abs(float(x)) for i, x in enumerate(default)]
    raise TypeError(f"no template value for {name}: {default!r}")


# ------------------------------------------------------------------------------------------
# files referenced by the generated configurations
# ------------------------------------------------------------------------------------------
_FILES = {}

SCSV_LOC = """---
# initial particle locations (C19)
schema:
  delimiter: ','
  missing: '-'
  fields:
    - name: X
      type: float
      fill: NaN
    - name: Y
      type: float
      fill: NaN
    - name: Z
      type: float
      fill: NaN
---
X,Y,Z
0.25,0.5,0.125
1.0,2.0,3.0
-1.5,0.0,0.75
"""


SCSV_FINAL = """---
schema:
  delimiter: ','
  missing: '-'
  fields:
    - name: X
      type: float
      fill: NaN
    - name: Z
      type: float
      fill: NaN
---
X,Z
0.75,-0.25
0.5,-0.5
"""
FINAL_EXPECT = {
    "tiny_rel": ([0.75, 0.5], [-0.25, -0.5]),
    "repo_abs": ([500000.0] * 4, [-20000.0, -40000.0, -60000.0, -80000.0]),
    "copy_rel": ([500000.0] * 4, [-20000.0, -40000.0, -60000.0, -80000.0]),
}


def scsv_path_text():
    cols = ["X_1", "Y_1", "Z_1"] + [f"L{i}{j}_1" for i in (1, 2, 3) for j in (1, 2, 3)] + ["t"]
    head = "---\nschema:\n  delimiter: ','\n  missing: '-'\n  fields:\n"
    for c in cols:
        head += f"    - name: {c}\n      type: float\n      fill: NaN\n"
    head += "---\n" + ",".join(cols) + "\n"
    rows = []
    for r in range(3):
        rows.append(",".join(repr(float(r + i * 0.5)) for i in range(len(cols))))
    return head + "\n".join(rows) + "\n"


def files():
    """Create (once per process) the input files in the work directory."""
    pid = os.getpid()
    if _FILES.get("pid") == pid:
        return _FILES
    import shutil

    import numpy as np

    wd = os.path.realpath(runner.workdir(PID))
    with open(os.path.join(wd, "loc.scsv"), "w") as f:
        f.write(SCSV_LOC)
    for i, name in enumerate(["path001.npz", "path002.npz"]):
        n = 3 + i
        arrs = {"t": np.arange(float(n))}
        for c in ["X", "Y", "Z"] + [f"L{a}{b}" for a in (1, 2, 3) for b in (1, 2, 3)]:
            arrs[f"{c}_{i + 1}"] = np.full(n, 0.5 * (i + 1))
        np.savez(os.path.join(wd, name), **arrs)
    with open(os.path.join(wd, "path003.scsv"), "w") as f:
        f.write(scsv_path_text())
    mdir = os.path.join(px().pkgdir, "data", "meshes")
    vtu = os.path.join(mdir, "corner2d_2cmyr_5e5x1e5.vtu")
    mloc = os.path.join(mdir, "corner2d_2cmyr_5e5x1e5.scsv")
    os.makedirs(os.path.join(wd, "sub"), exist_ok=True)
    shutil.copyfile(vtu, os.path.join(wd, "sub", "mesh.vtu"))
    shutil.copyfile(mloc, os.path.join(wd, "sub", "final.scsv"))
    import meshio

    pts = np.array([[0.0, 0.0, 0.0], [1.0, 0.0, 0.0], [1.0, 0.0, -1.0], [0.0, 0.0, -1.0]])
    meshio.Mesh(
        pts,
        [("triangle", np.array([[0, 1, 2], [0, 2, 3]]))],
        point_data={"VelocityGradient": np.zeros((4, 9)), "Velocity": np.zeros((4, 3))},
    ).write(os.path.join(wd, "sub", "tiny.vtu"))
    with open(os.path.join(wd, "sub", "tiny.scsv"), "w") as f:
        f.write(SCSV_FINAL)
    _FILES.clear()
    _FILES.update(pid=pid, wd=wd, vtu=vtu, mloc=mloc, n=0)
    return _FILES


# ------------------------------------------------------------------------------------------
# configuration model: spec -> model (dict of tables) -> TOML text
# ------------------------------------------------------------------------------------------
def template_parameters(ph, fab):
    names, fracs = PHASE_DEFS[ph] if isinstance(ph, str) else ph
    out = {}
    for name, default in param_fields():
        if name == "phase_assemblage":
            out[name] = list(names)
        elif name == "phase_fractions":
            out[name] = list(fracs)
        elif name == "initial_olivine_fabric":
            out[name] = fab
        else:
            out[name] = alt_value(name, default)
    return out


def template_input(mode, vg="simple_shear_2d", pf="npz", mesh="tiny_rel"):
    fs = files()
    if mode == "mesh":
        if mesh == "repo_abs":
            return {"mesh": fs["vtu"], "locations_final": fs["mloc"], "timestep": 1e10, "strain_final": 2.5}
        if mesh == "copy_rel":
            return {"mesh": "sub/mesh.vtu", "locations_final": "sub/final.scsv", "timestep": 1e10, "strain_final": 2.5}
        return {"mesh": "sub/tiny.vtu", "locations_final": "sub/tiny.scsv", "timestep": 1e10, "strain_final": 2.5}
    if mode == "velgrad":
        return {
            "velocity_gradient": list(VG_LETTERS[vg]),
            "locations_initial": "loc.scsv",
            "timestep": 1e9,
            "strain_final": 7.5,
        }
    if mode == "paths":
        return {
            "paths": [p.replace("@ABS", fs["wd"]) for p in PATH_LETTERS[pf]],
            "timestep": 2e9,
            "strain_final": 10,
        }
    raise KeyError(mode)


def template_output(ph):
    names = PHASE_DEFS[ph][0] if isinstance(ph, str) else ph[0]
    names = [ORD_NAMES[x] if _is_ord(x) else x for x in names]
    return {
        "directory": "out/run",
        "raw_output": list(names),
        "diagnostics": list(reversed(names)),
        "anisotropy": ["Voigt", "moduli"],
        "paths": ["pathline001.scsv"],
        "log_level": "DEBUG",
    }


def build(spec):
    """spec: dict(mode, ph, fab, omit=[labels 'table.key' | 'top.[table]'], edits=[(table, key,
    value)], vg, pf, mesh).  Returns the model (ordered dict of tables)."""
    ph = spec["ph"]
    model = {"name": "c19-case"}
    model["input"] = template_input(spec["mode"], spec.get("vg", "simple_shear_2d"), spec.get("pf", "npz"), spec.get("mesh", "tiny_rel"))
    model["output"] = template_output(ph)
    model["parameters"] = template_parameters(ph, spec["fab"])
    for table, key, value in spec.get("edits", ()):
        if table == "top":
            model[key] = value
        else:
            model[table][key] = value
    for label in spec.get("omit", ()):
        table, key = label.split(".", 1)
        if table == "top":
            model.pop(key[1:-1] if key.startswith("[") else key, None)
        elif table in model:
            model[table].pop(key, None)
    return model


def reference(model):
    """What the configuration declares: ('ok', None) or ('ConfigError', reason)."""
    p = px()
    prm = model.get("parameters", {})
    dp = {n: d for n, d in param_fields()}
    phases = prm.get("phase_assemblage", [x.name for x in dp["phase_assemblage"]])
    fracs = prm.get("phase_fractions", list(dp["phase_fractions"]))
    valid = {m.name for m in p.MineralPhase}
    if "input" not in model:
        return "ConfigError", "missing_input"
    inp = model["input"]
    if "timestep" not in inp and "paths" not in inp:
        return "ConfigError", "missing_timestep"
    if not all(isinstance(f, (int, float)) and not isinstance(f, bool) for f in fracs):
        return "ConfigError", "fraction_type"
    if abs(sum(fracs) - 1.0) > 1e-9:
        return "ConfigError", "fraction_sum"
    if len(phases) != len(fracs):
        return "ConfigError", "unequal_lengths"
    ordinal = any(_is_ord(x) for x in phases)
    phases = [ORD_NAMES[x] if _is_ord(x) else x for x in phases]
    for x in phases:
        if not (isinstance(x, str) and x in valid):
            return "ConfigError", "unknown_phase"
    fab = prm.get("initial_olivine_fabric", "A")
    if not (isinstance(fab, str) and fab in FABRICS):
        return "ConfigError", "unknown_fabric"
    if "disl_coefficients" in prm and len(prm["disl_coefficients"]) != len(dp["disl_coefficients"]):
        return "ConfigError", "coefficient_count"
    out = model.get("output", {})
    for level in ("raw_output", "diagnostics"):
        for x in out.get(level, []):
            if x not in phases:
                return "ConfigError", "output_phase_not_simulated"
    if ordinal:
        # the statement does not say whether ordinals are accepted: either the configuration
        # error, or a parse that satisfies every clause (enumeration-typed phases included)
        return "either", None
    return "ok", None


def omitted_labels(spec):
    return sorted(spec.get("omit", ()))


# ------------------------------------------------------------------------------------------
# running one configuration through the implementation
# ------------------------------------------------------------------------------------------
def normalise(v, wd):
    import enum
    import functools
    import pathlib

    import numpy as np

    if isinstance(v, enum.Enum):
        return f"{type(v).__name__}.{v.name}"
    if isinstance(v, (bool, int, str)) or v is None:
        return v
    if isinstance(v, float):
        return "nan" if math.isnan(v) else ("inf" if math.isinf(v) else v)
    if isinstance(v, pathlib.PurePath):
        s = str(v)
        return "@WD" + s[len(wd) :] if s.startswith(wd) else ("@CWD" if s == os.getcwd() else s)
    if hasattr(v, "files") and hasattr(v, "close") and not isinstance(v, dict):
        return {"npz": sorted(v.files)}
    if isinstance(v, functools.partial):
        return {"partial": getattr(v.func, "__name__", "?"), "kw": {k: normalise(x, wd) for k, x in sorted(v.keywords.items())}, "args": normalise(list(v.args), wd)}
    if hasattr(v, "_fields") and isinstance(v, tuple):
        return {"columns": {f: normalise(list(getattr(v, f)), wd) for f in v._fields}}
    if isinstance(v, (list, tuple)):
        return [normalise(x, wd) for x in v]
    if isinstance(v, dict):
        return {str(k): normalise(x, wd) for k, x in sorted(v.items(), key=lambda kv: str(kv[0]))}
    if isinstance(v, np.ndarray):
        return normalise(v.tolist(), wd)
    if isinstance(v, np.generic):
        return normalise(v.item(), wd)
    if hasattr(v, "points") and hasattr(v, "point_data"):
        return {"mesh_points": len(v.points), "point_data": sorted(v.point_data)}
    if callable(v):
        return {"callable": getattr(v, "__name__", type(v).__name__)}
    return {"type": type(v).__name__}


def parse(model):
    """Write the model as TOML into the work directory and parse it.  Returns
    (status, cfg | exception, text) with status in ok | ConfigError | <other exception name>."""
    import tomllib

    p = px()
    fs = files()
    text = toml_text(model)
    for table, content in model.items():
        for k, v in content.items() if isinstance(content, dict) else [(table, content)]:
            line = f"{k} = {toml_value(v)}"
            if line not in _LINES_OK:  # every distinct emitted line is read back once per process
                if tomllib.loads(line) != {k: json.loads(json.dumps(v))}:
                    raise AssertionError("harness: generated TOML line does not read back: " + line)
                _LINES_OK.add(line)
    path = os.path.join(fs["wd"], "case.toml")
    with open(path, "w") as f:
        f.write(text)
    old = os.getcwd()
    try:
        if _CWD_MODE[0] == "rel":
            # environment answer: the process changed its working directory after pydrex was
            # imported, and names the configuration file relative to the new one (seed C19f)
            os.chdir(fs["wd"])
            path = "case.toml"
        elif _CWD_MODE[0] == "rel_sub":
            os.chdir(os.path.join(fs["wd"], "sub"))
            path = os.path.join("..", "case.toml")
        cfg = p.io.parse_config(path)
    except p.ConfigError as e:
        return "ConfigError", e, text
    except Exception as e:  # the oracle is about exception types
        return type(e).__name__, e, text
    finally:
        os.chdir(old)
    return "ok", cfg, text


_CWD_MODE = [None]


def close_cfg(cfg):
    try:
        for f in (cfg.get("input") or {}).get("paths") or []:
            if hasattr(f, "close"):
                f.close()
    except Exception:
        pass
    # After it has been judged, every returned table is overwritten in place: a parser that
    # hands out (or keeps) an object it also uses as the source of defaults for LATER parses
    # then serves these values to the following configurations of the same process (seed C19h)
    try:
        for tname in ("parameters", "output", "input"):
            t = cfg.get(tname)
            if isinstance(t, dict):
                for k in list(t):
                    t[k] = "OVERWRITTEN-BY-THE-CALLER"
    except Exception:
        pass


_LINES_OK = set()


class Acc:
    """Accumulates the result of one case."""

    def __init__(self, key):
        self.key = key
        self.res = empty_result()
        self.obs = []
        self.texts = set()
        self.single_cache = {}

    def clause(self, name, k=1):
        c = self.res["clauses"]
        c[name] = c.get(name, 0) + k

    def note(self, name, k=1):
        n = self.res["notes"]
        n[name] = n.get(name, 0) + k

    def viol(self, clause, key, detail):
        self.res["viol"].append({"clause": clause, "key": key, "detail": detail})

    def done(self, sample=None):
        self.res["obs"] = digest(*self.obs)
        self.res["states"] = len(self.texts) if self.texts else self.res["states"]
        self.res["sample"] = sample if sample is not None else {"case": self.key}
        return self.res


def context_of(spec):
    return {k: spec[k] for k in ("mode", "ph", "fab", "vg", "pf", "mesh") if k in spec}


def run_config(acc, spec, faultinfo=None):
    """Build, parse and judge one configuration."""
    p = px()
    fs = files()
    wd = fs["wd"]
    model = build(spec)
    want, reason = reference(model)
    status, got, text = parse(model)
    acc.res["n"] += 1
    acc.res["trans"] += 1
    acc.texts.add(digest(text))
    omitted = omitted_labels(spec)
    if omitted or spec.get("edits"):
        acc.res["nontrivial"].append(digest(text))
    summary = normalise(got, wd) if status == "ok" else status
    if isinstance(summary, dict):
        if "name" not in model:
            summary.pop("name", None)  # unseeded default name: owned nondeterminism
    acc.obs.append(runner.jdump(summary))
    acc.res["outcomes"].append(digest(runner.jdump(summary)))
    ctx = context_of(spec)

    if faultinfo is not None:
        return judge_fault(acc, spec, model, faultinfo, want, reason, status, got, ctx)

    if want == "ConfigError":
        acc.clause("constraint")
        if status != "ConfigError":
            if status != "ok" and explained(acc, spec, status):
                acc.note("explained_by_single_omission")
            else:
                acc.viol(
                    "constraint",
                    {
                        "part": "config",
                        "reason": reason,
                        "omitted": "+".join(omitted) or "(none)",
                        "form": "parsed_without_error" if status == "ok" else "raises_" + status,
                    },
                    {"context": ctx, "message": short(got, 200), "toml": text[:1500]},
                )
        if status == "ok":
            close_cfg(got)
        return status

    if want == "either" and status != "ok":
        acc.clause("constraint")
        if status != "ConfigError":
            acc.viol(
                "constraint",
                {"part": "config", "reason": "ordinal_phases", "omitted": "+".join(omitted) or "(none)", "form": "raises_" + status},
                {"context": ctx, "message": short(got, 200), "toml": text[:1500]},
            )
        else:
            acc.note("ordinal_phases_rejected")
        return status
    # ---- the configuration is valid: it must parse
    acc.clause("parses")
    if status != "ok":
        if omitted and explained(acc, spec, status):
            acc.note("explained_by_single_omission")
        else:
            acc.viol(
                "parses",
                {
                    "part": "config",
                    "omitted": "+".join(omitted) or "(none)",
                    "form": "raises_" + status,
                    **({"mode": spec["mode"]} if any(o.startswith("input.") for o in omitted) or not omitted else {}),
                    **({k: spec[k] for k in ("vg", "pf", "mesh") if k in spec and not omitted}),
                },
                {"context": ctx, "message": short(got, 200), "toml": text[:1500]},
            )
        return status
    try:
        judge_ok(acc, spec, model, got, ctx, text)
    finally:
        close_cfg(got)
    return status


def explained(acc, spec, status):
    """True if the complete template, or one of the omitted keys omitted alone from it, in the
    same context already gives the same unexpected exception (the complete configuration and
    every single omission are themselves enumerated configurations and are reported there)."""
    om = omitted_labels(spec)
    for label in ["(complete)"] + (om if len(om) > 1 else []):  # a single omission cannot explain itself
        if label.startswith("top.["):
            continue
        ck = (runner.jdump(context_of(spec)), label)
        if ck not in acc.single_cache:
            s1 = dict(spec)
            s1["omit"] = [] if label == "(complete)" else [label]
            m1 = build(s1)
            w1, _ = reference(m1)
            st1, got1, _ = parse(m1)
            if st1 == "ok":
                close_cfg(got1)
            acc.res["n"] += 1
            acc.single_cache[ck] = (w1, st1)
        w1, st1 = acc.single_cache[ck]
        if w1 == "ok" and st1 == status:
            return True
    return False


def judge_ok(acc, spec, model, cfg, ctx, text):
    p = px()
    wd = files()["wd"]
    det = {"context": ctx, "omitted": omitted_labels(spec), "toml": text[:1500]}

    def V(clause, key, **extra):
        d = dict(det)
        d.update(extra)
        k = {"part": "config"}
        k.update(key)
        acc.viol(clause, k, d)

    if not isinstance(cfg, dict):
        V("parses", {"form": "result_not_a_dict", "omitted": "+".join(det["omitted"]) or "(none)"})
        return
    # ---------------- parameters
    prm_model = model.get("parameters", {})
    prm = cfg.get("parameters")
    if not isinstance(prm, dict):
        V("default", {"table": "top", "key": "[parameters]", "form": "table_missing_from_result"})
        prm = {}
    dp = p.DefaultParams()
    for name, _ in param_fields():
        if name not in prm:
            V("default" if name not in prm_model else "declared", {"table": "parameters", "key": name, "form": "key_missing_from_result"})
            continue
        got = prm[name]
        if name in prm_model:
            given = prm_model[name]
            if name == "phase_assemblage":
                exp = tuple(p.MineralPhase(x) if _is_ord(x) else p.MineralPhase[x] for x in given)
            elif name == "initial_olivine_fabric":
                exp = p.MineralFabric["olivine_" + given]
            else:
                exp = given
            acc.clause("declared")
            if not same(got, exp):
                V("declared", {"table": "parameters", "key": name, "form": "value_not_as_declared"}, got=short(got), expected=short(exp))
        else:
            if name in DOC_PARAM_DEFAULTS:
                exp, src = DOC_PARAM_DEFAULTS[name]
                if name == "initial_olivine_fabric":
                    exp = p.MineralFabric[exp]
            else:
                exp, src = getattr(dp, name), "value of pydrex.core.DefaultParams." + name
            acc.clause("default")
            if not same(got, exp):
                V("default", {"table": "parameters", "key": name, "form": "wrong_default", "got": short(got, 60)}, expected=short(exp), source=src)
    # ---------------- invariants of the parsed parameters
    if "phase_assemblage" in prm and "phase_fractions" in prm:
        pa, pf = prm["phase_assemblage"], prm["phase_fractions"]
        acc.clause("invariant", 4)
        if not is_seq(pa) or not is_seq(pf) or len(pa) != len(pf):
            V("invariant", {"form": "unequal_lengths"}, phases=short(pa), fractions=short(pf))
        try:
            s = float(sum(pf))
        except Exception:
            s = float("nan")
        if not abs(s - 1.0) <= 1e-9:
            V("invariant", {"form": "fractions_do_not_sum_to_one"}, fractions=short(pf))
        if is_seq(pa) and not all(isinstance(x, p.MineralPhase) for x in pa):
            V("invariant", {"form": "phase_not_MineralPhase", "type": type(pa[0]).__name__ if len(pa) else "?"}, phases=short(pa))
        if not isinstance(prm.get("initial_olivine_fabric"), p.MineralFabric):
            V("invariant", {"form": "fabric_not_MineralFabric", "type": type(prm.get("initial_olivine_fabric")).__name__})
        simulated = [x for x in pa] if is_seq(pa) else []
    else:
        simulated = []
    # ---------------- output
    out_model = model.get("output")
    out = cfg.get("output")
    if not isinstance(out, dict):
        acc.clause("default")
        V("default", {"table": "top", "key": "[output]", "form": "table_missing_from_result"})
        out = None
    if out is not None:
        om = out_model or {}
        # log_level
        acc.clause("default" if "log_level" not in om else "declared")
        exp = om.get("log_level", DOC_LOG_LEVEL)
        if "log_level" not in out:
            V("default" if "log_level" not in om else "declared", {"table": "output", "key": "log_level", "form": "key_missing_from_result"})
        elif not same(out["log_level"], exp):
            V("default" if "log_level" not in om else "declared", {"table": "output", "key": "log_level", "form": "wrong_default" if "log_level" not in om else "value_not_as_declared", "got": short(out["log_level"], 60)}, expected=exp)
        # raw_output / diagnostics
        allph = list(p.MineralPhase)
        for level in ("raw_output", "diagnostics"):
            if level in om:
                acc.clause("declared")
                exp = [p.MineralPhase[x] for x in om[level]]
                if level not in out or not same(out[level], exp):
                    V("declared", {"table": "output", "key": level, "form": "value_not_as_declared"}, got=short(out.get(level)), expected=short(exp))
            else:
                acc.clause("default")
                if level not in out:
                    V("default", {"table": "output", "key": level, "form": "key_missing_from_result"})
                else:
                    got = out[level]
                    okk = is_seq(got) and all(isinstance(x, p.MineralPhase) for x in got) and len(set(got)) == len(got) and (
                        set(got) == set(simulated) or set(got) == set(allph)
                    )
                    if not okk:
                        V("default", {"table": "output", "key": level, "form": "wrong_default", "got": short(got, 60)}, expected="all simulated phases or all members of MineralPhase")
        # paths
        if "paths" in om:
            if spec["mode"] != "paths":  # with pathline input the code documents them as exclusive
                # Observational only: the statement of C19 says nothing about declared
                # [output] paths (the code treats input and output pathlines as mutually
                # exclusive), so a dropped value is recorded in the notes, not as a verdict.
                got = out.get("paths")
                if not (is_seq(got) and len(got) == len(om["paths"])):
                    acc.res["notes"]["observed_output_paths_dropped"] = acc.res["notes"].get("observed_output_paths_dropped", 0) + 1
        else:
            acc.clause("default")
            if out.get("paths"):
                V("default", {"table": "output", "key": "paths", "form": "wrong_default", "got": short(out.get("paths"), 60)}, expected="not produced (None / empty)")
        # anisotropy, directory: declared values only (no documented default)
        if "anisotropy" in om:
            acc.clause("declared")
            if not same(out.get("anisotropy"), om["anisotropy"]):
                V("declared", {"table": "output", "key": "anisotropy", "form": "value_not_as_declared"}, got=short(out.get("anisotropy")), expected=short(om["anisotropy"]))
        if "directory" in om:
            acc.clause("declared")
            exp = os.path.realpath(os.path.join(wd, om["directory"]))
            got = out.get("directory")
            if got is None or os.path.realpath(str(got)) != exp:
                V("declared", {"table": "output", "key": "directory", "form": "value_not_as_declared"}, got=short(normalise(got, wd)), expected="@WD/" + om["directory"])
    # ---------------- name
    if "name" in model:
        acc.clause("declared")
        if not same(cfg.get("name"), model["name"]):
            V("declared", {"table": "top", "key": "name", "form": "value_not_as_declared"}, got=short(cfg.get("name")))
    # ---------------- input
    inp_model = model["input"]
    inp = cfg.get("input")
    if not isinstance(inp, dict):
        V("declared", {"table": "top", "key": "[input]", "form": "table_missing_from_result"})
        return
    for k in ("timestep", "strain_final"):
        if k in inp_model:
            acc.clause("declared")
            if not same(inp.get(k), inp_model[k]):
                V("declared", {"table": "input", "key": k, "form": "value_not_as_declared", "mode": spec["mode"]}, got=short(inp.get(k)), expected=inp_model[k])
    mode = spec["mode"]
    acc.clause("declared")
    if mode == "mesh":
        m = inp.get("mesh")
        n = normalise(m, wd)
        ml = spec.get("mesh", "tiny_rel")
        if not (isinstance(n, dict) and n.get("mesh_points") == MESH_LETTERS[ml] and "VelocityGradient" in n.get("point_data", [])):
            V("declared", {"table": "input", "key": "mesh", "form": "value_not_as_declared", "mode": mode}, got=short(n))
        lf = inp.get("locations_final")
        if not (hasattr(lf, "_fields") and same(list(getattr(lf, "X", ())), FINAL_EXPECT[ml][0]) and same(list(getattr(lf, "Z", ())), FINAL_EXPECT[ml][1])):
            V("declared", {"table": "input", "key": "locations_final", "form": "value_not_as_declared", "mode": mode}, got=short(normalise(lf, wd)))
    elif mode == "velgrad":
        li = inp.get("locations_initial")
        if not (hasattr(li, "_fields") and same(list(getattr(li, "X", ())), [0.25, 1.0, -1.5]) and same(list(getattr(li, "Y", ())), [0.5, 2.0, 0.0]) and same(list(getattr(li, "Z", ())), [0.125, 3.0, 0.75])):
            V("declared", {"table": "input", "key": "locations_initial", "form": "value_not_as_declared", "mode": mode}, got=short(normalise(li, wd)))
        vg = inp_model["velocity_gradient"]
        exp = normalise(getattr(p.velocity, vg[0])(*vg[1:]), wd)
        got = normalise(inp.get("velocity_gradient"), wd)
        if got != exp:
            V("declared", {"table": "input", "key": "velocity_gradient", "form": "value_not_as_declared", "mode": mode, "vg": spec.get("vg", "simple_shear_2d")}, got=short(got, 300), expected=short(exp, 300))
    elif mode == "paths":
        ps = inp.get("paths")
        ok = is_seq(ps) and len(ps) == len(inp_model["paths"])
        if ok:
            for given, g in zip(inp_model["paths"], ps):
                cols = None
                if hasattr(g, "files"):
                    cols = set(g.files)
                elif hasattr(g, "_fields"):
                    cols = set(g._fields)
                elif isinstance(g, dict):
                    cols = set(g)
                idn = {"path001.npz": "1", "path002.npz": "2", "path003.scsv": "1"}[os.path.basename(given)]
                if cols is None or not {"t", "X_" + idn, "L11_" + idn, "L33_" + idn} <= cols:
                    ok = False
        if not ok:
            V("declared", {"table": "input", "key": "paths", "form": "value_not_as_declared", "mode": mode, "pf": spec.get("pf", "npz")}, got=short(normalise(ps, wd)))


# ------------------------------------------------------------------------------------------
# (c) single faults
# ------------------------------------------------------------------------------------------
def fault_letters(family, ph):
    """[(letter, edits, omit, strict)] for the phase list ph.  strict=False: only observed."""
    names, fracs = PHASE_DEFS[ph]
    names = list(names)
    n = len(names)
    quiet_out = [("output", "raw_output", []), ("output", "diagnostics", [])]
    L = []
    if family == "fraction_sum":
        if n == 1:
            vals = [[0.9], [0.999], [1.001], [1.1], [0.0], [2.0], [0.5]]
        else:
            vals = [[0.7, 0.2], [0.7, 0.299], [0.7, 0.301], [0.7, 0.4], [0.5, 0.6], [0.0, 0.0], [1.0, 1.0], [0.3, 0.3], [0.97, 0.0]]
            if names[0] == "enstatite":
                vals = [list(reversed(v)) for v in vals]
        for v in vals:
            L.append(("sum=" + repr(round(sum(v), 6)) + ":" + toml_value(v), [("parameters", "phase_fractions", v)], [], True))
    elif family == "unequal_lengths":
        if n == 1:
            vals = [[0.7, 0.3], [0.5, 0.3, 0.2], [0.25, 0.25, 0.25, 0.25]]
        else:
            vals = [[1.0], [0.5, 0.3, 0.2], [0.25, 0.25, 0.25, 0.25]]
        for v in vals:
            L.append((f"{n}phases_{len(v)}fractions", [("parameters", "phase_fractions", v)] + quiet_out, [], True))
        L.append((f"0phases_{n}fractions", [("parameters", "phase_assemblage", [])] + quiet_out, [], True))
        L.append((f"{n + 1}phases_{n}fractions", [("parameters", "phase_assemblage", names + ["olivine"])] + quiet_out, [], True))
        if n == 2:
            L.append(("2phases_default_fractions", quiet_out, ["parameters.phase_fractions"], True))
            L.append(("default_phases_2fractions", quiet_out, ["parameters.phase_assemblage"], True))
    elif family == "unknown_phase":
        bad = [
            ("str_quartz", "quartz"),
            ("str_Olivine", "Olivine"),
            ("str_OLIVINE", "OLIVINE"),
            ("str_empty", ""),
            ("str_olivine_A", "olivine_A"),
            ("str_name", "name"),
            ("int_2", 2),
            ("int_7", 7),
            ("int_-1", -1),
            ("float_0.5", 0.5),
            ("list", ["olivine"]),
        ]
        for pos in range(n):
            for lname, b in bad:
                v = list(names)
                v[pos] = b
                L.append((f"{lname}@{pos}", [("parameters", "phase_assemblage", v)] + quiet_out, [], True))
    elif family == "unknown_fabric":
        for lname, b in [
            ("str_F", "F"),
            ("str_a", "a"),
            ("str_AB", "AB"),
            ("str_empty", ""),
            ("str_olivine_A", "olivine_A"),
            ("str_AA", "AA"),
            ("str_name", "name"),
            ("int_9", 9),
            ("int_-1", -1),
            ("float_1.5", 1.5),
            ("list_A", ["A"]),
        ]:
            L.append((lname, [("parameters", "initial_olivine_fabric", b)], [], True))
    elif family == "coefficient_count":
        full = template_parameters(ph, "A")
        c = full["disl_coefficients"]
        for k in (0, 1, len(c) - 1, len(c) + 1, 2 * len(c)):
            v = (c * 2)[:k]
            L.append((f"disl_coefficients_{k}of{len(c)}", [("parameters", "disl_coefficients", v)], [], True))
        for name, default in param_fields():
            if is_seq(default) and name not in ("phase_assemblage", "phase_fractions", "disl_coefficients"):
                for k in (len(default) - 1, len(default) + 1):
                    v = (full[name] * 2)[:k]
                    L.append((f"{name}_{k}of{len(default)}", [("parameters", name, v)], [], False))
    elif family == "missing_input":
        L.append(("no_input_table", [], ["top.[input]"], True))
    elif family == "missing_timestep":
        L.append(("no_timestep", [], ["input.timestep"], True))
        L.append(("no_timestep_no_strain_final", [], ["input.timestep", "input.strain_final"], True))
        L.append(("timestep_string", [("input", "timestep", "1e9")], [], False))
        L.append(("strain_final_string", [("input", "strain_final", "10")], [], False))
    elif family == "output_phase_not_simulated":
        other = [m for m in ("olivine", "enstatite") if m not in names]
        for level in ("raw_output", "diagnostics"):
            for lname, v in [("quartz", ["quartz"]), ("names+quartz", names + ["quartz"]), ("Olivine", ["Olivine"])]:
                L.append((f"{level}={lname}", [("output", level, v)], [], True))
            for o in other:
                L.append((f"{level}={o}", [("output", level, [o])], [], True))
                L.append((f"{level}=names+{o}", [("output", level, names + [o])], [], True))
        for o in other:
            L.append((f"both={o}", [("output", "raw_output", [o]), ("output", "diagnostics", [o])], [], True))
        if n == 2:
            # both phases listed in [output], only the default phase simulated
            L.append(("phases_omitted", [], ["parameters.phase_assemblage", "parameters.phase_fractions"], True))
    else:
        raise KeyError(family)
    return L


FAULTS = {
    "fraction_sum": "fraction_sum",
    "unequal_lengths": None,  # any of the constraint reasons is fine
    "unknown_phase": None,
    "unknown_fabric": "unknown_fabric",
    "coefficient_count": "coefficient_count",
    "missing_input": "missing_input",
    "missing_timestep": "missing_timestep",
    "output_phase_not_simulated": "output_phase_not_simulated",
}
FAULT_PHASES = PHASES + ["en"]


def judge_fault(acc, spec, model, faultinfo, want, reason, status, got, ctx):
    family, letter, strict = faultinfo
    if status == "ok":
        close_cfg(got)
    if not strict:
        acc.note("observed_only_faults")
        if status not in ("ok", "ConfigError"):
            acc.note("observed_only_other_exception")
        return status
    if want != "ConfigError":
        raise AssertionError(f"harness: fault {family}/{letter} is not a fault for the reference model")
    acc.clause("fault_" + family)
    if status != "ConfigError":
        key = {
            "part": "fault",
            "fault": family,
            "letter": letter,
            "form": "parsed_without_error" if status == "ok" else "raises_" + status,
        }
        if family == "missing_timestep":
            key["mode"] = spec["mode"]
        acc.viol("fault", key, {"context": ctx, "reference_reason": reason, "message": short(got, 200), "toml": toml_text(model)[:1500]})
    return status


def run_fault(key):
    acc = Acc(key)
    family = key["fault"]
    modes = list(MODES)
    if family == "missing_timestep":
        modes = ["mesh", "velgrad"]
    for mode in modes:
        for ph in FAULT_PHASES:
            # the un-faulted twin must be a valid configuration for the reference model
            twin = {"mode": mode, "ph": ph, "fab": "B"}
            if reference(build(twin))[0] != "ok":
                raise AssertionError("harness: twin of a fault configuration is not valid")
            for letter, edits, omit, strict in fault_letters(family, ph):
                spec = {"mode": mode, "ph": ph, "fab": "B", "edits": edits, "omit": omit}
                run_config(acc, spec, faultinfo=(family, letter, strict))
    return acc.done({"case": key, "configs": acc.res["n"]})


# ------------------------------------------------------------------------------------------
# (b) blocks
# ------------------------------------------------------------------------------------------
def input_subsets(mode):
    opt = MODES[mode][1]
    out = []
    for r in range(len(opt) + 1):
        for c in itertools.combinations(opt, r):
            out.append("+".join(c))  # the keys that are PRESENT
    return out


def inp_omit(mode, present):
    have = set(present.split("+")) if present else set()
    return ["input." + k for k in MODES[mode][1] if k not in have]


def out_subsets():
    """Omitted label sets over the optional [output] keys and `name`."""
    labels = ["output." + k for k in OUT_KEYS] + ["top.name"]
    sets = []
    for r in range(len(labels) + 1):
        for c in itertools.combinations(labels, r):
            sets.append(list(c))
    allout = ["output." + k for k in OUT_KEYS]
    sets.append(allout + ["top.[output]"])
    sets.append(allout + ["top.[output]", "top.name"])
    return sets


def prm_subsets(kmax):
    names = ["parameters." + n for n, _ in param_fields()]
    sets = []
    for r in range(kmax + 1):
        for c in itertools.combinations(names, r):
            sets.append(list(c))
    sets.append(names + ["top.[parameters]"])
    return sets


def run_block_out(key):
    acc = Acc(key)
    base = inp_omit(key["mode"], key["inp"])
    for om in out_subsets():
        run_config(acc, {"mode": key["mode"], "ph": key["ph"], "fab": key["fab"], "omit": base + om})
    return acc.done({"case": key, "configs": acc.res["n"]})


def run_block_prm(key):
    acc = Acc(key)
    base = inp_omit(key["mode"], key["inp"])
    if key["out"] == "none":
        base = base + ["output." + k for k in OUT_KEYS]
    for om in prm_subsets(key["k"]):
        run_config(acc, {"mode": key["mode"], "ph": key["ph"], "fab": key["fab"], "omit": base + om})
    return acc.done({"case": key, "configs": acc.res["n"]})


EDGE_VALUES = [("gbm_mobility", 0), ("gbs_threshold", 0.0), ("nucleation_efficiency", 0.0), ("disl_activation_volume", 0.0)]


def run_block_edge(key):
    acc = Acc(key)
    val = dict((n, v) for n, v in EDGE_VALUES)[key["name"]]
    for ph in PHASES:
        run_config(acc, {"mode": key["mode"], "ph": ph, "fab": "A", "omit": [], "edits": [("parameters", key["name"], val)]})
    return acc.done({"case": key, "configs": acc.res["n"]})


def run_block_cwd(key):
    acc = Acc(key)
    allout = ["output." + k for k in OUT_KEYS]
    _CWD_MODE[0] = key["cwd"]
    try:
        for ph in PHASES:
            for om in ([], ["output.directory"], allout + ["top.[output]"]):
                run_config(acc, {"mode": key["mode"], "ph": ph, "fab": "A", "omit": list(om)})
    finally:
        _CWD_MODE[0] = None
    return acc.done({"case": key, "configs": acc.res["n"]})


def locale_child(path):
    """Runs in a FRESH interpreter whose locale encoding is not UTF-8."""
    import locale

    p = px()
    try:
        cfg = p.io.parse_config(path)
        return {"status": "ok", "name": cfg.get("name"), "grains": cfg["parameters"].get("number_of_grains"), "encoding": locale.getpreferredencoding(False)}
    except p.ConfigError as e:
        return {"status": "ConfigError", "msg": str(e)[:200], "encoding": locale.getpreferredencoding(False)}
    except Exception as e:
        return {"status": type(e).__name__, "msg": str(e)[:200], "encoding": locale.getpreferredencoding(False)}


def run_block_locale(key):
    """Environment answer: the process locale encoding is not UTF-8 (LC_ALL=C, no UTF-8
    mode, no locale coercion).  A configuration file is UTF-8 by the TOML standard: the same
    file, with non-ASCII text in a comment and in `name`, parses to the same values
    (seed C19h: the file decoded with the locale's encoding)."""
    import subprocess
    import sys

    acc = Acc(key)
    fs = files()
    model = build({"mode": key["mode"], "ph": "ol_en", "fab": "A", "omit": []})
    model["name"] = "gr\u00f6\u00dfe_\u0394 \U0001d700".encode().decode("unicode_escape")
    text = "# \u03b5 = \u03b3/2 \u2014 strain\n".encode().decode("unicode_escape") + toml_text(model)
    path = os.path.join(fs["wd"], "locale_case.toml")
    with open(path, "w", encoding="utf-8") as f:
        f.write(text)
    env = dict(os.environ, LC_ALL="C", LANG="C", PYTHONUTF8="0", PYTHONCOERCECLOCALE="0")
    out = subprocess.run([sys.executable, "-m", "props.c19", path], capture_output=True, text=True, env=env, cwd=os.path.dirname(os.path.dirname(os.path.abspath(__file__))), encoding="utf-8", errors="replace")
    got = None
    for line in out.stdout.splitlines():
        if line.startswith("RESULT "):
            got = json.loads(line[7:])
    if got is None:
        raise RuntimeError("locale child failed: " + out.stderr[-1500:])
    acc.res["n"] += 1
    acc.res["trans"] += 1
    acc.clause("parses")
    want_grains = model["parameters"]["number_of_grains"]
    if got["status"] != "ok" or got.get("name") != model["name"] or got.get("grains") != want_grains:
        acc.viol("parses", {"part": "config", "block": "locale", "mode": key["mode"], "form": "raises_" + got["status"] if got["status"] != "ok" else "values_differ_under_non_utf8_locale"}, {"child": got, "expected_name": model["name"]})
    acc.res["nontrivial"].append(digest(key))
    acc.res["notes"]["locale_child_encoding:" + str(got.get("encoding"))] = 1
    return acc.done({"case": key, "child": got})


def run_block_ordinal(key):
    acc = Acc(key)
    allout = ["output." + k for k in OUT_KEYS]
    for fab in ("A", "C"):
        for om in ([], ["output.raw_output"], ["output.diagnostics"], ["output.raw_output", "output.diagnostics"], allout + ["top.[output]"], ["parameters.phase_fractions"] if key["ph"] == "ol#" else ["top.name"]):
            run_config(acc, {"mode": key["mode"], "ph": key["ph"], "fab": fab, "omit": list(om)})
    return acc.done({"case": key, "configs": acc.res["n"]})


def run_block_inputs(key):
    acc = Acc(key)
    for ph in PHASES:
        for fab in FABRICS:
            spec = {"mode": key["mode"], "ph": ph, "fab": fab, "omit": []}
            spec[key["axis"]] = key["letter"]
            run_config(acc, spec)
    return acc.done({"case": key, "configs": acc.res["n"]})


# ------------------------------------------------------------------------------------------
# (a) records
# ------------------------------------------------------------------------------------------
def raises(fn):
    try:
        fn()
    except Exception as e:
        return type(e).__name__
    return None


def alt_record_value(name, default):
    p = px()
    if name == "phase_assemblage":
        return (p.MineralPhase.olivine, p.MineralPhase.enstatite)
    if name == "phase_fractions":
        return (0.7, 0.3)
    if name == "initial_olivine_fabric":
        return p.MineralFabric.olivine_B
    v = alt_value(name, default)
    return tuple(v) if is_seq(v) else v


def check_frozen(acc, make, cls_name, fields, clause):
    """setattr / delattr of every field must raise and leave the record unchanged."""
    for name, default in fields:
        inst = make()
        before = getattr(inst, name)
        alt = alt_record_value(name, default)
        acc.res["trans"] += 2
        acc.clause(clause, 2)
        r = raises(lambda: setattr(inst, name, alt))
        if r is None or not same(getattr(inst, name, None), before):
            acc.viol(clause, {"part": "records", "cls": cls_name, "field": name, "form": "setattr_accepted" if r is None else "setattr_raised_but_changed"}, {"after": short(getattr(inst, name, None))})
        r = raises(lambda: delattr(inst, name))
        if r is None or not same(getattr(inst, name, None), before):
            acc.viol(clause, {"part": "records", "cls": cls_name, "field": name, "form": "delattr_accepted"}, {})


def guarded(acc, clause, cls_name, section, fn):
    """Run one section of a record check; an exception escaping from the implementation is a
    violation of that section's clause (with the exception type as form), never a harness error."""
    try:
        fn()
    except Exception as e:
        acc.viol(clause, {"part": "records", "cls": cls_name, "section": section, "form": "raises_" + type(e).__name__}, {"message": short(e, 200)})


def run_defaults(key):
    p = px()
    acc = Acc(key)
    DP = p.DefaultParams
    fields = param_fields()
    names = [n for n, _ in fields]
    C = "DefaultParams"
    acc.res["states"] = 1 + len(fields)

    def K(**kw):
        k = {"part": "records", "cls": C}
        k.update(kw)
        return k

    def sec_doc():
        inst = DP()
        acc.res["n"] += 1
        for name, (val, src) in sorted(DOC_PARAM_DEFAULTS.items()):
            acc.clause("default_doc")
            exp = p.MineralFabric[val] if name == "initial_olivine_fabric" else val
            if name not in names:
                acc.viol("default_doc", K(field=name, form="documented_parameter_missing"), {"source": src})
            elif not same(getattr(inst, name), exp):
                acc.viol("default_doc", K(field=name, form="differs_from_documented_default", got=short(getattr(inst, name), 60)), {"expected": short(exp), "source": src})
        acc.obs.append(runner.jdump(normalise({n: getattr(inst, n) for n in names}, "")))

    def sec_frozen():
        check_frozen(acc, DP, C, fields, "frozen")
        inst = DP()
        acc.clause("frozen")
        if raises(lambda: setattr(inst, "c19_new_attribute", 1)) is None:
            acc.viol("frozen", K(field="(new attribute)", form="setattr_accepted"), {})

    def sec_hash():
        inst = DP()
        acc.clause("hashable", 2)
        h = raises(lambda: hash(inst))
        if h is not None:
            acc.viol("hashable", K(form="hash_raises_" + h), {})
        elif not isinstance(hash(inst), int):
            acc.viol("hashable", K(form="hash_not_int"), {})
        elif hash(DP()) != hash(inst) or DP() != inst:
            acc.viol("hashable", K(form="equal_records_differ"), {})
        for name in names:
            acc.clause("hashable")
            if raises(lambda: hash(getattr(inst, name))) is not None:
                acc.viol("hashable", K(field=name, form="field_value_unhashable"), {"value": short(getattr(inst, name))})

    def sec_dict():
        inst = DP()
        d = inst.as_dict()
        acc.res["n"] += 1
        acc.clause("roundtrip", 3)
        if not isinstance(d, dict) or list(d) != names:
            acc.viol("roundtrip", K(form="as_dict_keys_differ_from_fields"), {"keys": short(list(d)), "fields": short(names)})
        for name in names:
            acc.clause("roundtrip")
            if name not in d or not same(d[name], getattr(inst, name)) or type(d[name]) is not type(getattr(inst, name)):
                acc.viol("roundtrip", K(field=name, form="as_dict_value_differs_from_attribute"), {"dict": short(d.get(name)), "attr": short(getattr(inst, name))})
        r = raises(lambda: DP(**d))
        if r is not None:
            acc.viol("roundtrip", K(form="constructor_rejects_as_dict_" + r), {})
        else:
            rt = DP(**d)
            acc.res["n"] += 1
            if rt != inst or not (inst == rt) or rt.as_dict() != d:
                acc.viol("roundtrip", K(form="round_trip_not_equal"), {})
            elif raises(lambda: hash(rt)) is None and raises(lambda: hash(inst)) is None and hash(rt) != hash(inst):
                acc.viol("roundtrip", K(form="round_trip_hash_differs"), {})
        acc.obs.append(runner.jdump(normalise(d, "")))

    def sec_copy():
        for name, default in fields:
            inst = DP()
            acc.clause("frozen")
            dd = inst.as_dict()
            dd[name] = alt_record_value(name, default)
            if not same(getattr(inst, name), default) or not same(DP().as_dict()[name], default) or not same(inst.as_dict()[name], default):
                acc.viol("frozen", K(field=name, form="as_dict_not_a_copy"), {})

    def sec_replace():
        for name, default in fields:
            inst = DP()
            alt = alt_record_value(name, default)
            dd = dict(inst.as_dict())
            dd[name] = alt
            acc.res["n"] += 1
            acc.res["trans"] += 1
            acc.clause("roundtrip")
            r = raises(lambda: DP(**dd))
            if r is not None:
                acc.viol("roundtrip", K(field=name, form="replacement_rejected_" + r), {"value": short(alt)})
                continue
            q = DP(**dd)
            bad = None
            if not same(getattr(q, name), alt) or not same(q.as_dict()[name], alt):
                bad = "replacement_not_stored"
            elif q == DP():
                bad = "replacement_equal_to_default"
            elif raises(lambda: hash(q)) is not None:
                bad = "replacement_unhashable"
            elif DP(**q.as_dict()) != q:
                bad = "replacement_round_trip_not_equal"
            elif any(not same(getattr(q, o), getattr(DP(), o)) for o in names if o != name):
                bad = "replacement_changes_other_field"
            if bad:
                acc.viol("roundtrip", K(field=name, form=bad), {"value": short(alt), "got": short(getattr(q, name))})
            acc.res["nontrivial"].append(digest("DP", name))
            acc.res["outcomes"].append(digest(name, short(getattr(q, name))))
            acc.obs.append(repr((name, normalise(getattr(q, name), ""))))

    guarded(acc, "default_doc", C, "documented_defaults", sec_doc)
    guarded(acc, "hashable", C, "hash", sec_hash)
    guarded(acc, "roundtrip", C, "as_dict", sec_dict)
    guarded(acc, "roundtrip", C, "replacement", sec_replace)
    guarded(acc, "frozen", C, "as_dict_copy", sec_copy)
    guarded(acc, "frozen", C, "setattr", sec_frozen)
    return acc.done({"case": key, "fields": len(fields)})


def eval_literal(node, env):
    """Evaluate the small literal language used in preset bodies: constants, tuples/lists,
    unary minus, and attribute access on the enumeration classes."""
    if isinstance(node, ast.Constant):
        return node.value
    if isinstance(node, ast.Tuple):
        return tuple(eval_literal(e, env) for e in node.elts)
    if isinstance(node, ast.List):
        return [eval_literal(e, env) for e in node.elts]
    if isinstance(node, ast.UnaryOp) and isinstance(node.op, (ast.USub, ast.UAdd)):
        v = eval_literal(node.operand, env)
        return -v if isinstance(node.op, ast.USub) else v
    if isinstance(node, ast.BinOp) and isinstance(node.op, (ast.Pow, ast.Mult, ast.Add, ast.Sub, ast.Div)):
        import operator

        a, b = eval_literal(node.left, env), eval_literal(node.right, env)
        ops = {ast.Pow: operator.pow, ast.Mult: operator.mul, ast.Add: operator.add, ast.Sub: operator.sub, ast.Div: operator.truediv}
        return ops[type(node.op)](a, b)
    if isinstance(node, ast.Attribute) and isinstance(node.value, ast.Name) and node.value.id in env:
        return env[node.value.id][node.attr]  # Enum['member']: no attribute machinery of the preset
    if isinstance(node, ast.Attribute) and isinstance(node.value, ast.Attribute):
        # e.g. _core.MineralPhase.olivine
        if node.value.attr in env:
            return env[node.value.attr][node.attr]
    raise ValueError("unsupported expression in preset body: " + ast.dump(node)[:120])


def declared_values(cls):
    """{name: value} of the simple assignments in the body of cls, from its source text."""
    p = px()
    src = textwrap.dedent(inspect.getsource(cls))
    tree = ast.parse(src)
    cdef = next(n for n in tree.body if isinstance(n, ast.ClassDef))
    env = {"MineralPhase": p.MineralPhase, "MineralFabric": p.MineralFabric}
    out, skipped = {}, []
    for node in cdef.body:
        target = value = None
        if isinstance(node, ast.Assign) and len(node.targets) == 1 and isinstance(node.targets[0], ast.Name):
            target, value = node.targets[0].id, node.value
        elif isinstance(node, ast.AnnAssign) and isinstance(node.target, ast.Name) and node.value is not None:
            target, value = node.target.id, node.value
        if target is None or target.startswith("_"):
            continue
        try:
            out[target] = eval_literal(value, env)
        except ValueError:
            skipped.append(target)
    return out, skipped


def run_preset(key):
    p = px()
    acc = Acc(key)
    cname = key["cls"]
    cls = getattr(p.mock, cname)
    declared, skipped = declared_values(cls)
    acc.note("preset_declarations", len(declared))
    acc.note("preset_declarations_not_literal", len(skipped))
    fields = param_fields()
    defaults = dict(fields)
    r = raises(lambda: cls())
    acc.res["n"] += 1
    acc.clause("preset_constructs")
    if r is not None:
        acc.viol("preset_constructs", {"part": "records", "cls": cname, "form": "constructor_raises_" + r}, {})
        return acc.done({"case": key})
    inst = cls()
    acc.res["states"] = 1
    d = None
    r = raises(lambda: cls().as_dict())
    acc.res["n"] += 1
    if r is not None:
        acc.viol("preset_dict", {"part": "records", "cls": cname, "section": "as_dict", "form": "raises_" + r}, {})
    else:
        d = cls().as_dict()
    for name, want in sorted(declared.items()):
        acc.res["trans"] += 2
        for clause, present, got in (
            ("preset_attr", hasattr(inst, name), getattr(inst, name, None)),
            ("preset_dict", isinstance(d, dict) and name in d, d.get(name) if isinstance(d, dict) else None),
        ):
            acc.clause(clause)
            if not present:
                acc.viol(clause, {"part": "records", "cls": cname, "field": name, "form": "declared_name_absent"}, {"declared": short(want)})
            elif not same(got, want):
                if name in defaults and same(got, defaults[name]):
                    form = "returns_DefaultParams_default"
                else:
                    form = "other_value"
                acc.viol(clause, {"part": "records", "cls": cname, "field": name, "form": form}, {"declared": short(want), "got": short(got)})
        if name in defaults and not same(want, defaults[name]):
            acc.res["nontrivial"].append(digest(cname, name))
        acc.res["outcomes"].append(digest(cname, name, short(getattr(inst, name, None))))
        acc.obs.append(repr((name, normalise(getattr(inst, name, None), ""), normalise(d.get(name) if isinstance(d, dict) else None, ""))))
    # immutability and hashability of the preset
    pf = [(n, dv) for n, dv in fields if hasattr(inst, n)]
    guarded(acc, "preset_frozen", cname, "setattr", lambda: check_frozen(acc, cls, cname, pf, "preset_frozen"))

    def sec_hash():
        acc.clause("preset_hashable")
        h = raises(lambda: hash(inst))
        if h is not None:
            acc.viol("preset_hashable", {"part": "records", "cls": cname, "form": "hash_raises_" + h}, {})
        elif hash(cls()) != hash(inst) or cls() != inst:
            acc.viol("preset_hashable", {"part": "records", "cls": cname, "form": "equal_records_differ"}, {})

    guarded(acc, "preset_hashable", cname, "hash", sec_hash)
    return acc.done({"case": key, "declared": {k: short(v, 60) for k, v in sorted(declared.items())}})


# ------------------------------------------------------------------------------------------
# enumeration
# ------------------------------------------------------------------------------------------
def gen_cases(tier, seed):
    k = 2 if tier == "quick" else 3
    keys = []
    # simplest first: complete configurations (every input letter), then records
    for mode, axis, letters in (("velgrad", "vg", VG_LETTERS), ("paths", "pf", PATH_LETTERS), ("mesh", "mesh", MESH_LETTERS)):
        for letter in letters:
            keys.append({"part": "config", "block": "inputs", "mode": mode, "axis": axis, "letter": letter})
    # declared edge values: legal falsy values must be kept, not replaced by the default
    for mode in MODES:
        for name, val in EDGE_VALUES:
            keys.append({"part": "config", "block": "edge", "mode": mode, "name": name, "val": repr(val)})
    # the configuration file named relative to a working directory that was changed after import
    for mode in MODES:
        for cwd in ("rel", "rel_sub"):
            keys.append({"part": "config", "block": "cwd", "mode": mode, "cwd": cwd})
    # a process whose locale encoding is not UTF-8
    for mode in MODES:
        keys.append({"part": "config", "block": "locale", "mode": mode})
    # phases declared by ordinal
    for mode in MODES:
        for ph in ORD_PHASES:
            keys.append({"part": "config", "block": "ordinal", "mode": mode, "ph": ph})
    keys.append({"part": "records", "cls": "DefaultParams"})
    for cname in preset_classes():
        keys.append({"part": "records", "cls": cname, "preset": 1})
    for fam in FAULTS:
        keys.append({"part": "fault", "fault": fam})
    for mode in MODES:
        for inp in input_subsets(mode):
            for ph in PHASES:
                for fab in FABRICS:
                    keys.append({"part": "config", "block": "out", "mode": mode, "inp": inp, "ph": ph, "fab": fab})
    for mode in MODES:
        for inp in input_subsets(mode):
            for ph in PHASES:
                for fab in FABRICS:
                    for out in ("full", "none"):
                        keys.append({"part": "config", "block": "prm", "mode": mode, "inp": inp, "ph": ph, "fab": fab, "out": out, "k": k})
    return keys


def _prologue():
    """Every configuration case starts (in its own process history, so that a replay of the
    case alone sees the same thing) by parsing configurations without a [parameters] / without
    an [output] table and overwriting what was returned (see close_cfg)."""
    names = ["parameters." + n for n, _ in param_fields()]
    for omit in (names + ["top.[parameters]"], ["output." + k for k in OUT_KEYS] + ["top.[output]"]):
        try:
            status, got, _ = parse(build({"mode": "velgrad", "ph": "ol", "fab": "A", "omit": omit}))
            if status == "ok":
                close_cfg(got)
        except Exception:
            pass


def run_case(key):
    px()
    if key["part"] == "config":
        _prologue()
    if key["part"] == "records":
        return run_preset(key) if key.get("preset") else run_defaults(key)
    if key["part"] == "fault":
        return run_fault(key)
    if key["block"] == "edge":
        return run_block_edge(key)
    if key["block"] == "inputs":
        return run_block_inputs(key)
    if key["block"] == "locale":
        return run_block_locale(key)
    if key["block"] == "ordinal":
        return run_block_ordinal(key)
    if key["block"] == "cwd":
        return run_block_cwd(key)
    if key["block"] == "out":
        return run_block_out(key)
    if key["block"] == "prm":
        return run_block_prm(key)
    raise KeyError(key)


if __name__ == "__main__":
    import sys

    from mc import alph
    from mc.runner import quiet_pydrex

    alph.configure(int(os.environ.get("VERIF_SEED", "0")), os.environ.get("VERIF_TIER", "quick"))
    px()
    quiet_pydrex()
    print("RESULT " + json.dumps(locale_child(sys.argv[1])))
