"""C09 - grain-boundary sliding: small grains are floored and do not rotate
(engine A on the kernel pydrex.utils.apply_gbs, engine B on update histories)."""

import itertools

import numpy as np

from mc import alph
from mc.runner import digest, empty_result
from props import _hist as H

PID = "C09"
RULE = (
    "kernel: chi(7 letters incl. 0 and 0.999) x n_grains {1,2,3,5,8} x volume vectors (none / one / "
    "many / all below the threshold; entries exactly at, one ulp below and one ulp above chi/n; "
    "zeros; un-normalised; duplicates) x orientation-set pairs, full product, against a plain "
    "numpy restatement; histories: BFS to depth 2 (3 thorough) over the 12 update letters, a zero and a rigid-rotation gradient, two single-solver-step updates (first_step = interval), one interval run backwards in time + "
    "partition letters from roots fabric(6) x regime(2) x strongly non-uniform volumes x M* in "
    "{125, 200} x chi letters x n_grains, with a recording wrapper on apply_gbs: every call got "
    "the start-of-update snapshot as reference, masked grains end the update with exactly their "
    "start-of-update orientation and the floor volume, unmasked grains keep the integrated "
    "orientation, stored fractions >= chi/(n(1+chi)), chi = 0 never masks. Non-trivial: at "
    "least one grain masked and one not; distinct = kernel input / reached state."
)
ASSUMPTIONS = [
    "the kernel is the public function pydrex.utils.apply_gbs (named in the property's observe_at)",
    "history clauses that need the seam are skipped (and reported) if the seam is not observable; the black-box floor bound is always checked",
    "renormalisation compared to (4 + n) ulp relative (numba sums sequentially, numpy pairwise)",
]
BOUND = {"quick": "kernel n <= 8; histories depth 2", "thorough": "kernel n <= 8 plus n = 50; histories depth 3"}

CHIS = [0.3, 0.0, 0.1, 0.5, 0.9, 0.999, 1e-9]
NS = [5, 1, 2, 3, 8]
VOLK = ["uniform", "dominant", "geometric", "onezero", "allbutone", "dup", "at_thr", "ulp_below", "ulp_above", "all_below", "unnormalised", "mixed_ulps"]


def ALPHABETS():
    return {"chi": len(CHIS), "n": len(NS), "volume_vectors": len(VOLK), "update_letters": len(H.STEP_LETTERS) + len(NULL_LETTERS) + len(FS_LETTERS) + len(BACK_LETTERS)}


def warmup():
    H.warm()
    import pydrex.utils as u

    u.apply_gbs(alph.texture("random", 3), alph.volumes("uniform", 3), 0.3, alph.texture("random2", 3), 3)


GETREG = {
    "disl_then_null": lambda t, x: 4 if t < 0.3 else 7,
    "disl_then_diff": lambda t, x: 4 if t < 0.3 else 1,
}


def kvol(name, n, chi):
    thr = chi / n
    if thr == 0.0 and name in ("ulp_below", "mixed_ulps"):
        # one ulp below a zero threshold would be a negative volume: outside the domain
        v = np.full(n, 1.0 / n)
        v[-1] = 0.0
        return v
    if name == "at_thr":
        v = np.full(n, 1.0 / n)
        v[0] = thr
        return v
    if name == "ulp_below":
        v = np.full(n, 1.0 / n)
        v[-1] = np.nextafter(thr, -1.0)
        return v
    if name == "ulp_above":
        v = np.full(n, 1.0 / n)
        v[0] = np.nextafter(thr, 2.0)
        return v
    if name == "mixed_ulps":
        v = np.array([thr, np.nextafter(thr, -1.0), np.nextafter(thr, 2.0), 0.0, 1.0][:n] + [0.5 * thr] * max(0, n - 5))
        return v
    if name == "all_below":
        return np.full(n, 0.5 * thr) if thr > 0 else np.zeros(n)
    if name == "unnormalised":
        return 3.7 * alph.volumes("geometric", n)
    return alph.volumes(name, n)


# stagnant and rigidly rotating material: the sliding rule still applies after the update
# (grains already below the threshold are floored and held): seed C09g
NULL_LETTERS = [("zero", 0.3), ("rigid", 0.3)]
# very short updates with the solver's documented `first_step` keyword set to the whole
# interval: the update is one single solver step (seed C09h: the post-processing of the
# solver's initial step skipped)
FS_LETTERS = [("ss_xz", 1.0 / 256, "fs"), ("gen", 1.0 / 1024, "fs")]
# an interval run backwards in time (seed C09i: post-processing skipped unless solver.t increases)
BACK_LETTERS = [("gen", -0.4)]


def gen_cases(tier, seed):
    keys = []
    ns = NS + ([50] if tier == "thorough" else [])
    for chi, n in itertools.product(range(len(CHIS)), ns):
        keys.append(dict(part="kernel", chi=chi, n=n))
    roots = []
    for fab in alph.FABRICS:
        for reg in ("disl", "yield"):
            for prm in ("default", "M200", "M200chi0.9", "chi0"):
                for ng in (5, 3, 8):
                    for vol in ("geometric", "dominant"):
                        nd = (prm != "default") + (ng != 5) + (vol != "geometric")
                        if nd <= (1 if tier == "quick" else 2):
                            roots.append(dict(part="hist", fab=fab, reg=reg, tex="random", vol=vol, ng=ng, prm=prm, depth=2 if tier == "quick" else 3))
    keys += roots
    # an axis-aligned initial texture typed with integer literals (an int64 array), and its
    # float twin: the start-of-update snapshot of the first update is then integer-typed (seed C09f)
    for fab in alph.FABRICS:
        for tex in ("aligned_i64", "aligned"):
            for prm in ("default", "M200"):
                roots.append(dict(part="hist", fab=fab, reg="disl", tex=tex, vol="geometric", ng=8, prm=prm, depth=2 if tier == "quick" else 3))
                keys.append(roots[-1])
    # the sliding rule applies after every update, whatever the regime (the two
    # viscosity-bound regimes and diffusion creep leave volumes alone, but grains that are
    # already below the threshold must still be floored and held): seed C09c
    for fab in alph.FABRICS:
        for reg in ("minvisc", "diff", "maxvisc"):
            for vol in ("geometric", "dominant"):
                keys.append(dict(part="hist", fab=fab, reg=reg, tex="random", vol=vol, ng=5, prm="default", depth=2 if tier == "quick" else 3))
    # and when the regime is switched by a callable in the middle of a history
    for fab in alph.FABRICS:
        for gr in ("disl_then_null", "disl_then_diff"):
            keys.append(dict(part="hist", fab=fab, reg="disl", tex="random", vol="geometric", ng=5, prm="M200", depth=2 if tier == "quick" else 3, getreg=gr))
    for fab in alph.FABRICS:
        for fl in ("ss_xz", "time"):
            keys.append(dict(part="chain", fab=fab, reg="disl", tex="random", vol="geometric", ng=8, prm="M200", flow=fl))
    return keys


def V(res, key, clause, detail, **kw):
    k = dict(key)
    k.update(kw)
    res["viol"].append({"clause": clause, "key": k, "detail": detail})


def run_case(key):
    return run_kernel(key) if key["part"] == "kernel" else run_hist(key)


def run_kernel(key):
    import pydrex.utils as u

    res = empty_result()
    chi, n = CHIS[key["chi"]], key["n"]
    thr = chi / n
    cl = res["clauses"]
    obs = []
    osets = [("random", "random2"), ("aligned", "cluster"), ("single", "random"), ("random", "aligned_i64")]  # last: an int64 reference snapshot
    for vname, (oa, ob) in itertools.product(VOLK, osets):
        f = kvol(vname, n, chi)
        if len(f) != n:
            continue
        A, P = alph.texture(oa, n), alph.texture(ob, n)
        A_in, f_in, P_in = A.copy(), f.copy(), P.copy()
        res["n"] += 1
        res["trans"] += 1
        res["states"] += 1
        try:
            Ao, fo = u.apply_gbs(A_in, f_in, chi, P_in, n)
        except Exception as e:
            V(res, key, "kernel_call", {"exception": type(e).__name__}, vol=vname, oset=oa)
            continue
        Ao, fo = np.asarray(Ao), np.asarray(fo)
        obs += [Ao, fo]
        kk = dict(vol=vname, oset=oa)
        mask = f < thr  # strict
        cl["mask_strict"] = cl.get("mask_strict", 0) + 1
        # masked orientations: exactly the reference array; others untouched
        okm = np.array_equal(Ao[mask], P[mask])
        oku = np.array_equal(Ao[~mask], A[~mask])
        if not (okm and oku):
            form = "other"
            if np.array_equal(Ao[f <= thr], P[f <= thr]) and np.array_equal(Ao[~(f <= thr)], A[~(f <= thr)]):
                form = "mask_is_<="
            elif np.array_equal(Ao[~mask], P[~mask]) and np.array_equal(Ao[mask], A[mask]):
                form = "mask_inverted"
            V(res, key, "mask_strict", {"masked_ok": bool(okm), "unmasked_ok": bool(oku)}, form=form, **kk)
        cl["prev_untouched"] = cl.get("prev_untouched", 0) + 1
        if not np.array_equal(P_in, P):
            V(res, key, "prev_untouched", {}, **kk)
        # floor + renormalise
        ref = f.copy()
        ref[mask] = thr
        S = ref.sum()
        cl["floor_renormalise"] = cl.get("floor_renormalise", 0) + 1
        if S > 0 and np.isfinite(S):
            ref = ref / S
            err = np.abs(fo - ref)
            # numba sums sequentially, numpy pairwise: the normaliser may differ by ~n ulp
            if np.any(err > (4 + n) * np.spacing(np.maximum(ref, 1e-300)) + 1e-300):
                i = int(np.argmax(err))
                V(res, key, "floor_renormalise", {"got": float(fo[i]), "expected": float(ref[i]), "masked": bool(mask[i])}, **kk)
            cl["sum_one"] = cl.get("sum_one", 0) + 1
            if abs(fo.sum() - 1) > 1e-15 * max(4, n):
                V(res, key, "sum_one", {"sum": float(fo.sum())}, **kk)
            cl["order_preserved"] = cl.get("order_preserved", 0) + 1
            o = np.argsort(f, kind="stable")
            if np.any(np.diff(fo[o]) < -(4 + n) * np.spacing(fo[o][1:])):
                V(res, key, "order_preserved", {"f_sorted_out": fo[o]}, **kk)
            cl["floor_bound"] = cl.get("floor_bound", 0) + 1
            # every returned fraction >= chi/n / S (S <= 1 + chi whenever the input sums to 1)
            if np.any(fo < thr / S - (4 + n) * np.spacing(thr / S)):
                V(res, key, "floor_bound", {"min": float(fo.min()), "floor": thr / S}, **kk)
        if chi == 0.0:
            cl["chi0_never_masks"] = cl.get("chi0_never_masks", 0) + 1
            if not np.array_equal(Ao, A):
                V(res, key, "chi0_never_masks", {}, **kk)
        if mask.any() and (~mask).any():
            res["nontrivial"].append(digest(key, vname, oa))
        res["outcomes"].append(digest(mask))
    res["obs"] = digest(*obs)
    res["sample"] = {"case": key, "volume_letters": len(VOLK)}
    return res


def run_hist(key):
    res = empty_result()
    ph, fb = alph.FABRICS[key["fab"]]
    n = key["ng"]
    prm = H.params_for(ph, key["prm"])
    chi = prm["gbs_threshold"]
    thr = chi / n
    m = H.build_mineral(key)
    root = H.State(m, np.eye(3))
    cl = res["clauses"]
    obs = []

    def step(st, lt):
        fl = H.flow(lt[0])
        child = st.clone()
        t1 = st.t + lt[1]
        hist = "/".join(st.hist + [H.letter_name(lt)])
        res["n"] += 1
        start = child.m.orientations[-1].copy()
        start_hash = digest(np.asarray(child.m.orientations[-1]))
        try:
            kw = {"get_regime": GETREG[key["getreg"]]} if key.get("getreg") else {}
            if len(lt) > 2 and lt[2] == "fs":
                kw["first_step"] = abs(lt[1])
            F, mon = H.update_mon(child.m, prm, child.F, fl, st.t, t1, **kw)
        except Exception as e:
            res["notes"]["rejected_updates"] = res["notes"].get("rejected_updates", 0) + 1
            if isinstance(e, H.UpdateTimeout):
                res["notes"]["updates_over_cpu_limit"] = res["notes"].get("updates_over_cpu_limit", 0) + 1
                raise H.StopExploration()
            return None
        child.F, child.t = np.asarray(F), t1
        child.N += 1
        child.hist.append(H.letter_name(lt))
        A1, f1 = child.m.orientations[-1], child.m.fractions[-1]
        # black-box floor bound on the stored fractions
        cl["stored_floor_bound"] = cl.get("stored_floor_bound", 0) + 1
        if np.any(f1 < thr / (1 + chi) - 1e-15):
            V(res, key, "stored_floor_bound", {"min": float(f1.min()), "bound": thr / (1 + chi)}, hist=hist)
        if not mon.seen_gbs or not mon.gbs:
            res["notes"]["gbs_seam_not_observed"] = res["notes"].get("gbs_seam_not_observed", 0) + 1
        else:
            cl["reference_is_start_of_update"] = cl.get("reference_is_start_of_update", 0) + len(mon.gbs)
            wrong = [i for i, g in enumerate(mon.gbs) if g[3] != start_hash]
            if wrong:
                V(res, key, "reference_is_start_of_update", {"calls": len(mon.gbs), "first_wrong_call": wrong[0]}, hist=hist)
            bad_args = [i for i, g in enumerate(mon.gbs) if g[1] != chi or g[2] != n]
            if bad_args:
                V(res, key, "threshold_arguments", {"got": [mon.gbs[bad_args[0]][1], mon.gbs[bad_args[0]][2]], "expected": [chi, n]}, hist=hist)
            fin, _, _, _, Ain = mon.gbs[-1]
            mask = fin < thr
            cl["frozen_exactly"] = cl.get("frozen_exactly", 0) + int(mask.sum())
            if not np.array_equal(A1[mask], start[mask]):
                V(res, key, "frozen_exactly", {"max_dev": float(np.abs(A1[mask] - start[mask]).max())}, hist=hist)
            cl["unmasked_keep_integrated"] = cl.get("unmasked_keep_integrated", 0) + int((~mask).sum())
            if not np.array_equal(A1[~mask], Ain[~mask]):
                V(res, key, "unmasked_keep_integrated", {"max_dev": float(np.abs(A1[~mask] - Ain[~mask]).max())}, hist=hist)
            ref = fin.copy()
            ref[mask] = thr
            ref /= ref.sum()
            cl["stored_floor_value"] = cl.get("stored_floor_value", 0) + 1
            if np.abs(f1 - ref).max() > 1e-14:
                V(res, key, "stored_floor_value", {"max_dev": float(np.abs(f1 - ref).max())}, hist=hist)
            if chi == 0.0:
                cl["chi0_never_masks"] = cl.get("chi0_never_masks", 0) + len(mon.gbs)
                if any((g[0] < 0).any() for g in mon.gbs):
                    V(res, key, "chi0_never_masks", {}, hist=hist)
            if mask.any() and (~mask).any():
                res["nontrivial"].append(H.canon(child))
            res["notes"]["masked_grain_updates"] = res["notes"].get("masked_grain_updates", 0) + int(mask.sum())
        obs.append(digest(A1, f1))
        return child

    if key["part"] == "hist":
        ns, nt = H.bfs(root, H.STEP_LETTERS + NULL_LETTERS + FS_LETTERS + BACK_LETTERS, key["depth"], step)
    else:
        nt = 0
        try:
            for k in (1, 2, 5, 10, 25):
                st = root
                for _ in range(k):
                    st = step(st, (key["flow"], 1.0 / k))
                    nt += 1
                    if st is None:
                        break
        except H.StopExploration:
            pass
        ns = nt + 1
    res["states"], res["trans"] = ns, nt
    if H.LAST["budget_stop"]:
        res["notes"]["cases_cut_at_cpu_budget"] = res["notes"].get("cases_cut_at_cpu_budget", 0) + 1
    res["outcomes"] += obs[:40]
    res["obs"] = digest(*obs)
    res["sample"] = {"case": key, "states": ns, "transitions": nt}
    return res
