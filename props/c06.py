"""C06 - the returned deformation gradient solves dF/dt = L(t, x(t)).F (engine B with a
reference integrator: expm for constant L, DOP853 at rtol 1e-12 otherwise)."""

import itertools

import numpy as np

from mc import alph
from mc.runner import digest, empty_result
from props import _hist as H

PID = "C06"
RULE = (
    "cases = initial F letter(8: one an int64 array, one in Fortran order, one a transposed view) x flow letter(11: simple shear, pure shear, non-commuting generic, "
    "generic with trace, time-dependent, position-dependent along a pathline, rigid rotation, zero, "
    "time-periodic with period 1/2 (equal values at the start, middle and end of whole-period updates), un-normalised generic handed out as ONE stored array object, simple shear returned as int64 arrays with an int64 position) x "
    "fabric(6) x accepted regime(5) x all points within <=1 deviation of the default over (n_grains "
    "{5,2,50}, parameter corner(4), texture(3)); inside each case ALL partitions of the span: k in "
    "{1,2,5,20} uniform updates and the 7 compositions with <=3 parts on a quarter grid, the span run "
    "backwards in time in 1 and 2 updates, and two there-and-back histories; every "
    "returned F is compared with the reference solution (also with the whole history shifted to clocks "
    "starting at 2e5, -3e7 and 1e9), det F with det F0 * exp(int tr L), split "
    "with whole. update_all over the assemblages [ol], [en], [ol,en], [en,ol]. Non-trivial: L != 0 "
    "and [L, F0] != 0 or L depends on t/x; distinct = distinct (case, partition)."
)
ASSUMPTIONS = [
    "reference: scipy.linalg.expm (constant L) and DOP853 rtol 1e-12 (cross-checked against a 2000-step product of expm in warmup)",
    "bound from the statement: relative error <= 5e-3 + 1e-3 (N + 2 strain)",
    "updates that raise are counted (notes.rejected_updates) and decided by C07, not here",
]
BOUND = {"quick": "span of strain 1 (time 1 at unit strain rate), <=20 updates per partition, <=1 root deviation", "thorough": "span 1 and 2, <=2 root deviations"}

F0_LETTERS = ["I", "shear", "stretch", "rotstretch", "generic", "shear_i64", "generic_fortran", "generic_tview"]
FLOW_LETTERS = ["ss_xz", "ps_xy", "gen", "gentr", "time", "pos", "rigid", "zero", "st_gen", "i64_ss", "per"]
PARTS = [("k", 1), ("k", 2), ("k", 5), ("k", 20)] + [("c", c) for c in [(1, 3), (2, 2), (3, 1), (1, 1, 2), (1, 2, 1), (2, 1, 1)]]
AXES = {"ng": [5, 2, 50], "prm": ["default", "M200chi0.9", "M0chi0", "lam0"], "tex": ["random", "single", "aligned"]}
ASSEMBLAGES = [("ol",), ("en",), ("ol", "en"), ("en", "ol")]


def ALPHABETS():
    return {"F0": len(F0_LETTERS), "flows": len(FLOW_LETTERS), "partitions": len(PARTS), "regimes": len(H.REGIMES)}


def warmup():
    H.warm()
    # cross-check of the reference itself: DOP853 vs product of expm over 2000 sub-steps
    from scipy.linalg import expm

    for name in ("time", "pos"):
        fl = H.flow(name)
        F = H.f0("generic")
        ts = np.linspace(0.0, 1.0, 2001)
        G = F.copy()
        for a, b in zip(ts[:-1], ts[1:]):
            tm = (a + b) / 2
            G = expm(fl.L(tm, fl.x(tm)) * (b - a)) @ G
        R = H.ref_F(fl, F, 0.0, 1.0)
        assert np.abs(G - R).max() < 1e-5, ("reference integrators disagree", name, np.abs(G - R).max())


def gen_cases(tier, seed):
    keys = []
    names = list(AXES)
    pts = []
    for nd in range(2 if tier == "quick" else 3):
        for sub in itertools.combinations(range(len(names)), nd):
            for vals in itertools.product(*[range(1, len(AXES[names[a]])) for a in sub]):
                pt = {k: AXES[k][0] for k in names}
                for a, v in zip(sub, vals):
                    pt[names[a]] = AXES[names[a]][v]
                pts.append(pt)
    for f0n, fl in itertools.product(F0_LETTERS, FLOW_LETTERS):
        for fab in alph.FABRICS:
            for reg in H.REGIMES:
                # <=1 deviation overall: the (F0, flow) pair is the full product, the mineral
                # axes deviate one at a time
                for pt in pts if (f0n == "generic" or fl == "gen") else pts[:1]:
                    keys.append(dict(part="single", F0=f0n, flow=fl, fab=fab, reg=reg, vol="uniform", **pt))
    for f0n, fl in itertools.product(F0_LETTERS, FLOW_LETTERS):
        for asm in ASSEMBLAGES:
            for order in ("fwd", "rev"):
                if len(asm) == 1 and order == "rev":
                    continue
                keys.append(dict(part="bulk", F0=f0n, flow=fl, asm="+".join(asm), order=order))
    # a clock that does not start near zero: the same histories shifted to [T0, T0 + span]
    # (interval lengths of 1e-6 .. 1e-9 relative to the time stamps; seed C06f)
    for fl in FLOW_LETTERS:
        for t0 in CLOCKS:
            for fab, reg in (("olA", "disl"), ("enAB", "yield"), ("olC", "minvisc")):
                keys.append(dict(part="single", F0="generic", flow=fl, fab=fab, reg=reg, vol="uniform", t0=t0, **{k: AXES[k][0] for k in AXES}))
    for fab, reg in STICKY:
        keys.append(dict(part="sticky", fab=fab, reg=reg))
    return keys


CLOCKS = ["2e5", "-3e7", "1e9"]
STICKY = [("olA", "disl"), ("enAB", "yield"), ("olC", "maxvisc")]


def shifted(fl, t0):
    """The same flow on a time axis shifted by t0."""
    if t0 == 0.0:
        return fl
    return H.Flow(fl.name + "@t0", lambda t, x: fl.L(t - t0, x), lambda t: fl.x(t - t0), const=fl.const)


def run_sticky(key):
    """Solver options passed to ONE call (the documented **kwargs pass-through: a deliberately
    loose rtol for a quick preview) do not leak into later default calls: an identical default
    update after it still returns the solution within the stated bound (seed C06i: the options
    dictionary aliased to a module-level default)."""
    from scipy.linalg import expm

    res = empty_result()
    ph, fb = alph.FABRICS[key["fab"]]
    prm = H.params_for(ph, "default")
    rg = np.zeros((3, 3))
    rg[0, 1], rg[1, 0] = 8.0, -8.0
    L = rg + np.diag([0.3, -0.3, 0.0])
    fl = H.Flow("spin8", lambda t, x: L.copy(), lambda t: np.zeros(3), const=L)
    F0 = H.f0("generic")
    ref = expm(L * 3.0) @ F0
    outs = []
    for step in ("default_before", "loose", "default_after"):
        m = H.build_mineral(dict(fab=key["fab"], reg=key["reg"], tex="random", vol="uniform", ng=5, prm="default"))
        kw = dict(rtol=0.5) if step == "loose" else {}
        res["n"] += 1
        res["trans"] += 1
        F = np.asarray(H.update(m, prm, F0.copy(), fl, 0.0, 3.0, **kw))
        outs.append(F)
        if step != "loose":
            res["clauses"]["F_solution"] = res["clauses"].get("F_solution", 0) + 1
            err = float(np.abs(F - ref).max() / np.abs(ref).max())
            b = H.ode_bound(1, fl.strain(0.0, 3.0))
            res["notes"]["max_sticky_rel_err"] = max(res["notes"].get("max_sticky_rel_err", 0.0), err)
            if not err <= b:
                res["viol"].append({"clause": "F_solution", "key": dict(key, step=step), "detail": {"rel_err": err, "bound": b}})
    res["clauses"]["options_do_not_leak"] = 1
    if not np.array_equal(outs[0], outs[2]):
        res["notes"]["default_call_changed_after_call_with_options"] = 1
    res["states"] = 3
    res["nontrivial"].append(digest(key))
    res["outcomes"].append(digest(np.round(outs[0], 6)))
    res["obs"] = digest(outs[0], outs[2])
    res["sample"] = {"case": key}
    return res


def partitions(span):
    out = []
    for kind, v in PARTS:
        if kind == "k":
            out.append((f"k{v}", [span / v] * v))
        else:
            out.append(("c" + "".join(map(str, v)), [span * 0.25 * c for c in v]))
    # intervals that run backwards in time (time_end < time_start), and there-and-back histories
    out.append(("b1", [-span]))
    out.append(("b2", [-span / 2] * 2))
    out.append(("rt11", [span / 2, -span / 2]))
    out.append(("rt121", [span / 4, -span / 2, span / 4]))
    return out


def check_F(res, key, F, Fref, F0, trint, N, strain, tag):
    cl = res["clauses"]
    bound = H.ode_bound(N, strain)

    def V(clause, detail):
        k = dict(key)
        k["partition"] = tag
        res["viol"].append({"clause": clause, "key": k, "detail": detail})

    F = np.asarray(F, float)
    cl["F_solution"] = cl.get("F_solution", 0) + 1
    if F.shape != (3, 3) or not np.isfinite(F).all():
        V("F_solution", {"shape": list(F.shape), "finite": bool(np.isfinite(F).all())})
        return
    err = float(np.abs(F - Fref).max() / max(1.0, np.abs(Fref).max()))
    if not err <= bound:
        V("F_solution", {"rel_err": err, "bound": bound, "F": F, "ref": Fref})
    cl["det_F"] = cl.get("det_F", 0) + 1
    dref = np.linalg.det(F0) * np.exp(trint)
    derr = float(abs(np.linalg.det(F) - dref) / max(1.0, abs(dref)))
    if not derr <= 3 * bound:
        V("det_F", {"det": float(np.linalg.det(F)), "expected": float(dref), "bound": 3 * bound})
    res["notes"]["max_rel_err_F"] = max(res["notes"].get("max_rel_err_F", 0.0), err)
    res["notes"]["max_ratio_err_to_bound"] = max(res["notes"].get("max_ratio_err_to_bound", 0.0), err / bound)


def trace_integral(fl, t0, t1):
    if fl.const is not None:
        return float(np.trace(fl.const) * (t1 - t0))
    ts = np.linspace(t0, t1, 129)
    return float(np.trapezoid([np.trace(fl.L(t, fl.x(t))) for t in ts], ts))


def run_case(key):
    if key["part"] == "sticky":
        return run_sticky(key)
    res = empty_result()
    T0 = float(key.get("t0", 0.0))
    fl0 = H.flow(key["flow"])  # the reference solution is always computed on the unshifted clock
    fl = shifted(fl0, T0)
    F0 = H.f0(key["F0"])
    span = 1.0
    obs = []
    spans = [1.0] if alph.TIER == "quick" else [1.0, 2.0]
    for span in spans:
        Fref_whole = H.ref_F(fl0, F0, 0.0, span)
        finals = {}
        for tag, steps in partitions(span):
            tag = f"{tag}@{span}"
            if key["part"] == "single":
                ph, fb = alph.FABRICS[key["fab"]]
                prm = H.params_for(ph, key["prm"])
                m = H.build_mineral(key)
                minerals = None
            else:
                names = key["asm"].split("+")
                phases = [{"ol": 0, "en": 1}[x] for x in names]
                fr = (1.0,) if len(names) == 1 else (0.7, 0.3)
                prm = H.params_for(0, "default", assemblage=[H.pd().MineralPhase(p) for p in phases], fractions=fr)
                minerals = []
                for x in names[::-1] if key["order"] == "rev" else names:
                    fabn = "olA" if x == "ol" else "enAB"
                    minerals.append(H.build_mineral(dict(fab=fabn, reg="disl", tex="random", vol="uniform", ng=4)))
            F, t, strain, N = np.array(F0, copy=True, order="K") if F0.flags.c_contiguous or F0.flags.f_contiguous else F0, T0, 0.0, 0
            tau = 0.0
            ok = True
            for dt in steps:
                res["n"] += 1
                res["trans"] += 1
                try:
                    if minerals is None:
                        F = H.update(m, prm, F, fl, t, t + dt)
                    else:
                        with H.time_limit():
                            F = H.pd().update_all(minerals, prm, F, fl.L, (t, t + dt, fl.x))
                except Exception as e:
                    res["notes"]["rejected_updates"] = res["notes"].get("rejected_updates", 0) + 1
                    res["outcomes"].append("exc:" + type(e).__name__)
                    ok = False
                    break
                N += 1
                strain += fl0.strain(tau, tau + dt)
                t += dt
                tau += dt  # elapsed time on the unshifted clock (exact sums of the partition)
                Fref = H.ref_F(fl0, F0, 0.0, tau) if abs(tau - span) > 1e-12 else Fref_whole
                check_F(res, key, F, Fref, F0, trace_integral(fl0, 0.0, tau), N, strain, tag)
                res["states"] += 1
            if ok:
                finals[tag] = (np.asarray(F, float), N, strain)
                obs.append(np.asarray(F, float))
        # split equals whole
        whole = finals.get(f"k1@{span}")
        if whole is not None:
            for tag, (F, N, strain) in finals.items():
                if tag[0] in "br":
                    continue  # other end points (compared with the reference solution only)
                res["clauses"]["split_equals_whole"] = res["clauses"].get("split_equals_whole", 0) + 1
                b = H.ode_bound(N, strain) + H.ode_bound(1, whole[2])
                err = float(np.abs(F - whole[0]).max() / max(1.0, np.abs(whole[0]).max()))
                if not err <= b:
                    k = dict(key)
                    k["partition"] = tag
                    res["viol"].append({"clause": "split_equals_whole", "key": k, "detail": {"rel_err": err, "bound": b}})
    Lm = fl0.L(0.3, fl0.x(0.3))
    if np.abs(Lm).max() > 0 and (fl.const is None or np.abs(Lm @ F0 - F0 @ Lm).max() > 1e-9):
        res["nontrivial"].append(digest(key))
    res["outcomes"].append(digest(*[np.round(o, 6) for o in obs]))
    res["obs"] = digest(*obs)
    res["sample"] = {"case": key, "partitions": len(PARTS)}
    return res
