"""C11 - elastic tensor representations are mutually consistent, norm-preserving maps
(engine A, basis-exhaustive: every map in pydrex.tensors is linear, so it is decided on a
basis, on all pairwise sums of the basis and on generic dense letters)."""

import itertools

import numpy as np

from mc import alph
from mc.runner import digest, empty_result
from ref import tensors_ref as R

PID = "C11"
RULE = (
    "basis-exhaustive: the 21 symmetric unit Voigt matrices, all 210 pairwise sums (linearity; each "
    "whole-number letter also handed over as int64, negated int64 and float32 arrays) and "
    "generic dense letters (one fixed, the rest derived from VERIF_SEED), each evaluated on all 81 "
    "(p,q,r,s) and all 36 (i,j) index tuples; the same alphabet in 21-vector space (21 unit vectors, "
    "210 sums, generic letters); the 81 unit 4th-order tensors symmetrised over the minor/major index "
    "symmetries; rotate() on every tensor letter x every FRAME rotation x every ordered pair of FRAME "
    "rotations (composition) and their inverses; the four projector matrices built column by column "
    "from the 21 unit vectors; polar decomposition (both values of `left`) and invariants on a 3x3 "
    "matrix alphabet (generic, rotations, symmetric +/-, det<0, rank 2/1/0, diagonal, ties, defective, "
    "ill-conditioned, tiny, huge) x pre/post multiplication by frame rotations. A sub-case is "
    "non-trivial when the input is non-zero (and, for rotate, the rotation is not the identity); "
    "distinct = distinct (kind, letter, rotation(s) / variant)."
)
ASSUMPTIONS = [
    "Voigt convention 11,22,33,23,13,12 -> 0..5 (the convention the module documents and uses); the "
    "layout of the 21-vector is NOT prescribed by the check, only that the two vector maps are mutually "
    "inverse isometries and that the projectors act consistently with that layout",
    "contractions: d_ij = C_ijkk, v_ij = C_ikjk (Browaeys & Chevrot 2004 eq. 3.4/3.5; the docstring's "
    "'C_ijkj' is read as the Voigt contraction C_ikjk)",
    "polar_decompose returns (orthogonal factor, stretch) in that order for both values of `left`; "
    "left=True means the stretch stands on the left (M = stretch @ orthogonal, 'M = VP'), left=False "
    "means M = orthogonal @ stretch ('M = RU'); the orthogonal factor need not be proper (det<0 inputs) "
    "and is not compared with a reference where it is not unique (singular inputs)",
    "symmetry classes have their unique axis along z (x3) as in Browaeys & Chevrot 2004; the projector "
    "ranges are compared with the fixed spaces of C2, D2, D4, D12 (group average by einsum)",
    "numpy einsum / linalg (eigvals, eigvalsh, svd, matrix_rank) are trusted; rounding-level tolerances: "
    "1e-14 relative for the index maps, 1e-12 relative for rotate / polar / invariants, 1e-10 absolute "
    "for orthogonality",
]
BOUND = {
    "quick": "tensor letters: 21 units + 210 pair sums + 3 generic; FRAME = 24 cube + 3 generic rotations "
    "(729 ordered pairs per tensor letter); 3x3 matrix alphabet x 9 pre/post rotation variants",
    "thorough": "as quick plus all 1330 triple sums and 4 seeded generic letters (index maps and vector "
    "maps), FRAME = 24 cube + 6 generic rotations (900 ordered pairs per tensor letter, on units, pair "
    "sums and generic letters), 3x3 matrix alphabet x all 900 pre/post FRAME variants",
}

TOL_MAP = 1e-14
TOL_ROT = 1e-12
TOL_LIN = 1e-12
TOL_ORTH = 1e-10
RANKS = {"mono": 13, "ortho": 9, "tetr": 6, "hex": 5}
CHAIN = ["mono", "ortho", "tetr", "hex"]

_T = None
_PROJ = None


def impl():
    global _T
    if _T is None:
        from pydrex import tensors as t

        _T = t
    return _T


def proj_fns():
    t = impl()
    return {"mono": t.mono_project, "ortho": t.ortho_project, "tetr": t.tetr_project, "hex": t.hex_project}


def c(a):
    """Private C-contiguous float64 copy (one numba signature per function)."""
    return np.array(a, dtype=np.float64, order="C", copy=True)


# ------------------------------------------------------------------ alphabets


def unit_names():
    return [f"e{i}{j}" for i, j in R.SYM21]


def vunit_names():
    return [f"u{k:02d}" for k in range(21)]


def n_seeded():
    return 1 if alph.TIER == "quick" else 4


def generic_matrix(name):
    if name == "gfix":
        a = np.array([[np.sin(1.3 * (i + 1) * (j + 2) + 0.7 * i) for j in range(6)] for i in range(6)])
        return a + a.T
    if name.startswith("gseed"):
        k = int(name[5:])
        rng = np.random.default_rng(3000 + 17 * alph.SEED + k)
        a = rng.uniform(-1.0, 1.0, (6, 6))
        return 125.0 * (a + a.T)
    raise KeyError(name)


def generic_vector(name):
    if name == "vfix":
        return np.array([np.cos(0.9 * k + 0.4) + 0.05 * k for k in range(21)])
    if name.startswith("vseed"):
        k = int(name[5:])
        rng = np.random.default_rng(4000 + 17 * alph.SEED + k)
        return 250.0 * rng.uniform(-1.0, 1.0, 21)
    raise KeyError(name)


def matrix_atom(name):
    if name[0] == "e":
        return R.unit_sym(int(name[1]), int(name[2]))
    return generic_matrix(name)


def vector_atom(name):
    if name[0] == "u":
        v = np.zeros(21)
        v[int(name[1:])] = 1.0
        return v
    return generic_vector(name)


def letter_matrix(name):
    return sum(matrix_atom(a) for a in name.split("+"))


def letter_vector(name):
    return sum(vector_atom(a) for a in name.split("+"))


def letters_of(first, atoms, generics, tier):
    """Letters handled by the case `first`: the unit itself, its sums with every later unit
    (thorough: and with every later pair); or all generic letters and their sums."""
    if first == "generic":
        out = list(generics)
        out += [a + "+" + b for a, b in itertools.combinations(generics, 2)]
        out += [generics[0] + "+" + atoms[7], generics[-1] + "+" + atoms[20]]
        return out
    i = atoms.index(first)
    out = [first] + [first + "+" + b for b in atoms[i + 1 :]]
    if tier == "thorough":
        out += [first + "+" + b + "+" + d for b, d in itertools.combinations(atoms[i + 1 :], 2)]
    return out


def gen_names():
    return ["gfix"] + [f"gseed{k}" for k in range(n_seeded())]


def vgen_names():
    return ["vfix"] + [f"vseed{k}" for k in range(n_seeded())]


def rotate_letters():
    units = unit_names()
    out = list(units)
    out += [a + "+" + b for a, b in itertools.combinations(units, 2)]
    g = gen_names()
    out += g + [g[0] + "+" + g[1]]
    return out


def base_mats():
    """3x3 matrix alphabet for polar decomposition and invariants: name -> matrix."""
    g0, g1 = alph.GEN["g0"], alph.GEN["g1"]
    gen0 = np.array([[0.31, 0.92, -0.44], [-0.18, 0.27, 0.73], [0.56, -0.35, -0.58]])
    rng = np.random.default_rng(5000 + alph.SEED)
    gens = rng.uniform(-1.0, 1.0, (3, 3))
    a = np.array([1.0, 2.0, 3.0])
    b = np.array([0.5, -1.0, 2.0])
    sp = gen0.T @ gen0 + 0.25 * np.eye(3)
    e = np.eye(3)
    m = {}
    m["identity"] = np.eye(3)
    m["generic_fixed"] = gen0
    m["generic_seeded"] = gens
    m["generic_flipped"] = np.diag([1.0, 1.0, -1.0]) @ gen0  # opposite sign of det
    m["rotation_generic"] = g0.copy()
    m["rotation_90z"] = np.array([[0.0, -1.0, 0.0], [1.0, 0.0, 0.0], [0.0, 0.0, 1.0]])
    m["rotation_twofold"] = np.diag([1.0, -1.0, -1.0])
    m["reflection"] = np.diag([1.0, 1.0, -1.0])
    m["sym_posdef"] = sp
    m["sym_indefinite"] = g0 @ np.diag([2.0, 0.7, -1.1]) @ g0.T
    m["sym_negdef"] = -sp
    m["diag_sorted"] = np.diag([3.0, 2.0, 1.0])
    m["diag_unsorted"] = np.diag([1.0, 3.0, 2.0])
    m["diag_mixed_sign"] = np.diag([2.0, -1.0, 0.5])
    m["diag_tie"] = np.diag([2.0, 2.0, 1.0])
    m["scalar"] = 2.5 * np.eye(3)
    m["simple_shear_F"] = np.eye(3) + 2.0 * np.outer(e[0], e[2])  # defective, non-normal
    m["L_times_F"] = gen0 @ (np.eye(3) + 0.8 * np.outer(e[0], e[2]))
    m["cond_1e3"] = g0 @ np.diag([1.0, 0.03, 1e-3]) @ g1.T
    m["cond_1e12"] = g0 @ np.diag([1.0, 1e-6, 1e-12]) @ g1.T
    m["tiny_1e-9"] = 1e-9 * gen0
    m["huge_1e9"] = 1e9 * gen0
    m["rank2_generic"] = np.outer(a, b) + np.outer([0.0, 1.0, -1.0], [1.0, 1.0, 0.0])
    m["rank2_diag"] = np.diag([1.0, 2.0, 0.0])
    m["rank2_nilpotent"] = np.outer(e[0], e[1]) + np.outer(e[1], e[2])
    m["rank1_generic"] = np.outer(a, b)
    m["rank1_shear_L"] = 2.0 * np.outer(e[0], e[2])  # simple-shear velocity gradient
    m["rank1_diag"] = np.diag([0.0, 0.0, 3.0])
    m["zero"] = np.zeros((3, 3))
    return m


def variants(tier):
    """(pre, post) FRAME names: M' = Q_pre @ M @ Q_post^T."""
    if tier == "thorough":
        names = list(alph.FRAME)
        return list(itertools.product(names, names))
    return list(itertools.product(["cube00", "g0", "cube13"], ["cube00", "g1", "gs0"]))


def ALPHABETS():
    return {
        "unit_voigt_matrices": 21,
        "pair_sums": 210,
        "triple_sums_thorough": 1330,
        "generic_dense_letters": len(gen_names()),
        "index_tuples_pqrs": len(R.TUPLES81),
        "index_tuples_ij": len(R.TUPLES36),
        "frame_rotations": len(alph.FRAME),
        "frame_ordered_pairs": len(alph.FRAME) ** 2,
        "tensor_letters_rotated": len(rotate_letters()),
        "matrix3x3_letters": len(base_mats()),
        "matrix3x3_variants": len(variants(alph.TIER)),
        "closure_generator_applications": alph.CLOSURE_APPS,
    }


# ------------------------------------------------------------------ plumbing


def warmup():
    t = impl()
    m = c(generic_matrix("gfix"))
    ten = t.voigt_to_elastic_tensor(m)
    t.elastic_tensor_to_voigt(ten)
    t.voigt_decompose(m)
    v = t.voigt_matrix_to_vector(m)
    t.voigt_vector_to_matrix(v)
    t.rotate(ten, c(alph.GEN["g0"]))
    for f in proj_fns().values():
        f(v.copy())
    g = c(base_mats()["generic_fixed"])
    t.polar_decompose(g, True)
    t.polar_decompose(g, False)
    t.invariants_second_order(g)
    proj_mats()


def proj_mats():
    """The four projector matrices, column by column from the 21 unit vectors."""
    global _PROJ
    if _PROJ is None:
        out = {}
        for name, f in proj_fns().items():
            p = np.zeros((21, 21))
            for k in range(21):
                e = np.zeros(21)
                e[k] = 1.0
                p[:, k] = np.asarray(f(e))
            out[name] = p
        _PROJ = out
    return _PROJ


class Ctx:
    def __init__(self, key):
        self.key = key
        self.res = empty_result()
        self.obs = []
        self.first = {}

    def check(self, clause, ok, detail=None, dedupe=None, **extra):
        cl = self.res["clauses"]
        cl[clause] = cl.get(clause, 0) + 1
        if ok:
            return True
        d = (clause, dedupe)
        if d in self.first:
            self.first[d]["detail"]["n_bad_in_case"] += 1
            return False
        k = dict(self.key)
        k.update(extra)
        det = dict(detail or {})
        det["n_bad_in_case"] = 1
        v = {"clause": clause, "key": k, "detail": det}
        self.first[d] = v
        self.res["viol"].append(v)
        return False

    def count(self, clause, n):
        cl = self.res["clauses"]
        cl[clause] = cl.get(clause, 0) + n

    def call(self, fname, *args, **extra):
        """Call an implementation function; an exception is a violation ('noraise')."""
        self.res["n"] += 1
        self.res["trans"] += 1
        try:
            out = getattr(impl(), fname)(*args)
        except Exception as e:  # every map is total on its documented domain
            self.check(
                "noraise",
                False,
                {"exception": type(e).__name__, "message": str(e)[:120]},
                dedupe=(fname, type(e).__name__),
                fn=fname,
                exc=type(e).__name__,
                **extra,
            )
            return None
        self.check("noraise", True)
        return out

    def arr(self, fname, out, shape, **extra):
        """Shape / finiteness gate; returns ndarray or None."""
        if out is None:
            return None
        a = np.asarray(out)
        ok = a.shape == shape and np.isfinite(a).all()
        self.check("shape_finite", ok, {"shape": list(a.shape)}, dedupe=fname, fn=fname, **extra)
        if not ok:
            return None
        self.obs.append(np.ascontiguousarray(a))
        return a

    def done(self, sample):
        self.res["obs"] = digest(*self.obs)
        self.res["sample"] = sample
        return self.res


def close(a, b, tol, scale):
    return bool(np.abs(np.asarray(a) - np.asarray(b)).max() <= tol * scale + 1e-300)


def gen_cases(tier, seed):
    keys = []
    for first in unit_names() + ["generic"]:
        keys.append({"kind": "voigt", "first": first})
    for first in vunit_names() + ["generic"]:
        keys.append({"kind": "vector", "first": first})
    keys.append({"kind": "units81"})
    keys.append({"kind": "proj"})
    for name in base_mats():
        keys.append({"kind": "inv", "mat": name})
    for name in base_mats():
        keys.append({"kind": "polar", "mat": name})
    for name in rotate_letters():
        keys.append({"kind": "rotate", "letter": name})
    return keys


def run_case(key):
    return {
        "voigt": run_voigt,
        "vector": run_vector,
        "units81": run_units81,
        "proj": run_proj,
        "inv": run_inv,
        "polar": run_polar,
        "rotate": run_rotate,
    }[key["kind"]](key)


# ------------------------------------------------------------------ 6x6 <-> 3x3x3x3 <-> 21


_DT = None  # dtype in which the 6x6 letter is handed to the matrix-side maps (None: float64)


def cm(a):
    return c(a) if _DT is None else np.array(a, dtype=_DT, order="C", copy=True)


def voigt_maps(cx, name, m, dt=None):
    """All matrix-side maps on one 6x6 letter; returns dict of outputs (None where unusable).
    dt: hand the (whole-number) letter over as an array of that dtype."""
    global _DT
    _DT = dt
    try:
        return _voigt_maps(cx, name, m)
    finally:
        _DT = None


def _voigt_maps(cx, name, m):
    t_ref = R.to_tensor(m)
    scale = max(np.abs(m).max(), 1e-300)
    out = {"ten": None, "d": None, "v": None, "vec": None}
    ten = cx.arr("voigt_to_elastic_tensor", cx.call("voigt_to_elastic_tensor", cm(m), letter=name), (3, 3, 3, 3), letter=name)
    if ten is not None:
        out["ten"] = ten
        # every one of the 81 index tuples against the written-out Voigt table
        diff = np.abs(ten - t_ref)
        bad = diff > TOL_MAP * scale
        cx.count("index81", 80)
        if bad.any():
            p, q, r, s = (int(x) for x in np.argwhere(bad)[0])
            cx.check(
                "index81",
                False,
                {"n_bad_tuples": int(bad.sum()), "got": float(ten[p, q, r, s]), "want": float(t_ref[p, q, r, s])},
                letter=name,
                idx=f"{p}{q}{r}{s}",
            )
        else:
            cx.check("index81", True)
        s1, s2, s3 = R.symmetry_defects(ten)
        cx.check("minor_sym", max(s1, s2) <= TOL_MAP * scale, {"pq": s1, "rs": s2}, letter=name)
        cx.check("major_sym", s3 <= TOL_MAP * scale, {"defect": s3}, letter=name)
        back = cx.arr("elastic_tensor_to_voigt", cx.call("elastic_tensor_to_voigt", c(ten), letter=name), (6, 6), letter=name)
        if back is not None:
            cx.check(
                "roundtrip_voigt",
                close(back, m, TOL_MAP, scale),
                {"max_abs_err": float(np.abs(back - m).max())},
                letter=name,
            )
    # elastic_tensor_to_voigt on the reference tensor: all 36 (i, j)
    mv = cx.arr("elastic_tensor_to_voigt", cx.call("elastic_tensor_to_voigt", c(t_ref), letter=name), (6, 6), letter=name)
    if mv is not None:
        want = R.to_voigt(t_ref)
        bad = np.abs(mv - want) > TOL_MAP * scale
        cx.count("index36", 35)
        if bad.any():
            i, j = (int(x) for x in np.argwhere(bad)[0])
            cx.check(
                "index36",
                False,
                {"n_bad_tuples": int(bad.sum()), "got": float(mv[i, j]), "want": float(want[i, j])},
                letter=name,
                idx=f"{i}{j}",
            )
        else:
            cx.check("index36", True)
    # contractions
    dec = cx.call("voigt_decompose", cm(m), letter=name)
    if dec is not None:
        ok = isinstance(dec, tuple) and len(dec) == 2
        cx.check("shape_finite", ok, {"type": type(dec).__name__}, dedupe="voigt_decompose_tuple", fn="voigt_decompose", letter=name)
        if ok:
            d = cx.arr("voigt_decompose", dec[0], (3, 3), letter=name)
            v = cx.arr("voigt_decompose", dec[1], (3, 3), letter=name)
            src = ten if ten is not None else t_ref
            if d is not None:
                out["d"] = d
                want = R.dilatational(src)
                cx.check(
                    "contract_dilatational",
                    close(d, want, TOL_LIN, scale),
                    {"got": d, "want": want},
                    letter=name,
                )
            if v is not None:
                out["v"] = v
                want = R.deviatoric(src)
                cx.check(
                    "contract_deviatoric",
                    close(v, want, TOL_LIN, scale),
                    {"got": v, "want": want},
                    letter=name,
                )
    # 21-vector
    vec = cx.arr("voigt_matrix_to_vector", cx.call("voigt_matrix_to_vector", cm(m), letter=name), (21,), letter=name)
    if vec is not None:
        out["vec"] = vec
        nt = R.frob(t_ref)
        nv = float(np.sqrt(np.dot(vec, vec)))
        cx.check("norm_matrix_to_vector", abs(nv - nt) <= TOL_LIN * max(nt, 1e-300), {"vector_norm": nv, "tensor_norm": nt}, letter=name)
        mb = cx.arr("voigt_vector_to_matrix", cx.call("voigt_vector_to_matrix", c(vec), letter=name), (6, 6), letter=name)
        if mb is not None:
            err = np.abs(mb - m)
            ok = err.max() <= TOL_LIN * scale
            i, j = (int(x) for x in np.unravel_index(np.argmax(err), err.shape))
            cx.check(
                "inverse_vector_of_matrix",
                ok,
                {"max_abs_err": float(err.max()), "got": float(mb[i, j]), "want": float(m[i, j])},
                letter=name,
                idx=f"{i}{j}",
            )
    return out


def run_voigt(key):
    cx = Ctx(key)
    units = unit_names()
    letters = letters_of(key["first"], units, gen_names(), alph.TIER)
    atom_out = {}

    def atom(a):
        if a not in atom_out:
            sub = Ctx(key)  # atoms are checked in their own case; here only their outputs are needed
            atom_out[a] = voigt_maps(sub, a, matrix_atom(a))
            cx.res["n"] += sub.res["n"]
            cx.res["trans"] += sub.res["trans"]
        return atom_out[a]

    for name in letters:
        m = letter_matrix(name)
        out = voigt_maps(cx, name, m)
        cx.res["states"] += 1
        cx.res["nontrivial"].append(digest("voigt", name))
        if out["ten"] is not None and out["vec"] is not None:
            cx.res["outcomes"].append(digest(np.round(out["ten"], 9), np.round(out["vec"], 9)))
        parts = name.split("+")
        if all(a[0] == "e" for a in parts):
            # whole-number letters handed over as int64 / float32 arrays (legal ndarrays):
            # same clauses, the reference is evaluated on the float64 values
            for tag, dt, mm in (("i64", np.int64, m), ("i64neg", np.int64, -2.0 * m), ("f32", np.float32, m)):
                voigt_maps(cx, name + "@" + tag, mm, dt=dt)
                cx.res["states"] += 1
        if len(parts) > 1:
            scale = max(np.abs(m).max(), 1e-300)
            for fld, clause in (
                ("ten", "linear_voigt_to_tensor"),
                ("d", "linear_dilatational"),
                ("v", "linear_deviatoric"),
                ("vec", "linear_matrix_to_vector"),
            ):
                comps = [atom(a)[fld] for a in parts]
                if out[fld] is None or any(x is None for x in comps):
                    continue
                want = sum(comps)
                cx.check(
                    clause,
                    close(out[fld], want, TOL_LIN, scale * len(parts)),
                    {"max_abs_err": float(np.abs(out[fld] - want).max())},
                    letter=name,
                )
    return cx.done({"case": key, "letters": len(letters), "first_letters": letters[:3]})


def vector_maps(cx, name, x):
    scale = max(np.abs(x).max(), 1e-300)
    out = {"mat": None, "proj": {}}
    m = cx.arr("voigt_vector_to_matrix", cx.call("voigt_vector_to_matrix", c(x), letter=name), (6, 6), letter=name)
    if m is not None:
        out["mat"] = m
        cx.check("vector_matrix_symmetric", close(m, m.T, TOL_MAP, scale), {"defect": float(np.abs(m - m.T).max())}, letter=name)
        nt = R.frob(R.to_tensor(m))
        nv = float(np.sqrt(np.dot(x, x)))
        cx.check("norm_vector_to_matrix", abs(nv - nt) <= TOL_LIN * max(nv, 1e-300), {"vector_norm": nv, "tensor_norm": nt}, letter=name)
        xb = cx.arr("voigt_matrix_to_vector", cx.call("voigt_matrix_to_vector", cm(m), letter=name), (21,), letter=name)
        if xb is not None:
            err = np.abs(xb - x)
            k = int(np.argmax(err))
            cx.check(
                "inverse_matrix_of_vector",
                err.max() <= TOL_LIN * scale,
                {"max_abs_err": float(err.max()), "got": float(xb[k]), "want": float(x[k])},
                letter=name,
                idx=f"{k:02d}",
            )
    pm = proj_mats()
    for pname, f in proj_fns().items():
        y = cx.arr(pname + "_project", cx.call(pname + "_project", c(x), letter=name), (21,), letter=name)
        if y is None:
            continue
        out["proj"][pname] = y
        want = pm[pname] @ x
        cx.check(
            "proj_linear",
            close(y, want, TOL_LIN, scale),
            {"max_abs_err": float(np.abs(y - want).max())},
            dedupe=pname,
            letter=name,
            proj=pname,
        )
        # orthogonal projection: the residual is orthogonal to the image
        dot = float(np.dot(x - y, y))
        cx.check(
            "proj_residual_orthogonal",
            abs(dot) <= TOL_LIN * max(float(np.dot(x, x)), 1e-300),
            {"dot": dot},
            dedupe=pname,
            letter=name,
            proj=pname,
        )
    return out


def run_vector(key):
    cx = Ctx(key)
    units = vunit_names()
    letters = letters_of(key["first"], units, vgen_names(), alph.TIER)
    atom_out = {}

    def atom(a):
        if a not in atom_out:
            sub = Ctx(key)
            atom_out[a] = vector_maps(sub, a, vector_atom(a))
            cx.res["n"] += sub.res["n"]
            cx.res["trans"] += sub.res["trans"]
        return atom_out[a]

    for name in letters:
        x = letter_vector(name)
        out = vector_maps(cx, name, x)
        cx.res["states"] += 1
        cx.res["nontrivial"].append(digest("vector", name))
        if out["mat"] is not None:
            cx.res["outcomes"].append(digest(np.round(out["mat"], 9)))
        parts = name.split("+")
        if len(parts) > 1 and out["mat"] is not None:
            comps = [atom(a)["mat"] for a in parts]
            if all(x_ is not None for x_ in comps):
                want = sum(comps)
                cx.check(
                    "linear_vector_to_matrix",
                    close(out["mat"], want, TOL_LIN, max(np.abs(x).max(), 1e-300) * len(parts)),
                    {"max_abs_err": float(np.abs(out["mat"] - want).max())},
                    letter=name,
                )
    return cx.done({"case": key, "letters": len(letters), "first_letters": letters[:3]})


def run_units81(key):
    """elastic_tensor_to_voigt / voigt_to_elastic_tensor on the 81 unit tensors e_p e_q e_r e_s,
    symmetrised over the minor and major index symmetries (0/1 indicator of the orbit)."""
    cx = Ctx(key)
    for p, q, r, s in R.TUPLES81:
        idx = f"{p}{q}{r}{s}"
        tu = R.symmetrised_unit_tensor(p, q, r, s)
        want = R.unit_sym(R.VOIGT_OF_PAIR[p, q], R.VOIGT_OF_PAIR[r, s])
        cx.res["states"] += 1
        cx.res["nontrivial"].append(digest("units81", idx))
        m = cx.arr("elastic_tensor_to_voigt", cx.call("elastic_tensor_to_voigt", c(tu), idx=idx), (6, 6), idx=idx)
        if m is not None:
            cx.check("unit_tensor_to_voigt", close(m, want, TOL_MAP, 1.0), {"got": m}, idx=idx)
            cx.res["outcomes"].append(digest(np.round(m, 9)))
        t = cx.arr("voigt_to_elastic_tensor", cx.call("voigt_to_elastic_tensor", c(want), idx=idx), (3, 3, 3, 3), idx=idx)
        if t is not None:
            cx.check(
                "unit_voigt_to_tensor",
                close(t, tu, TOL_MAP, 1.0),
                {"n_bad_entries": int((np.abs(t - tu) > TOL_MAP).sum())},
                idx=idx,
            )
    return cx.done({"case": key, "tuples": 81})


# ------------------------------------------------------------------ projectors


def run_proj(key):
    cx = Ctx(key)
    fns = proj_fns()
    pm = {}
    for pname in CHAIN:
        p = np.zeros((21, 21))
        ok = True
        for k in range(21):
            e = np.zeros(21)
            e[k] = 1.0
            col = cx.arr(pname + "_project", cx.call(pname + "_project", e, proj=pname), (21,), proj=pname)
            cx.res["states"] += 1
            if col is None:
                ok = False
                continue
            p[:, k] = col
            # idempotence through the function itself
            again = cx.arr(pname + "_project", cx.call(pname + "_project", c(col), proj=pname), (21,), proj=pname)
            if again is not None:
                cx.check(
                    "proj_idempotent_fn",
                    close(again, col, TOL_LIN, 1.0),
                    {"max_abs_err": float(np.abs(again - col).max())},
                    dedupe=pname,
                    proj=pname,
                    col=k,
                )
        if ok:
            pm[pname] = p
            cx.res["nontrivial"].append(digest("proj", pname))
            cx.res["outcomes"].append(digest(np.round(p, 9)))
    groups = R.point_groups()
    vm, mv = impl().voigt_vector_to_matrix, impl().voigt_matrix_to_vector
    for pname, p in pm.items():
        cx.check("proj_idempotent", close(p @ p, p, TOL_LIN, 1.0), {"max_abs_err": float(np.abs(p @ p - p).max())}, proj=pname)
        err = np.abs(p - p.T)
        i, j = (int(x) for x in np.unravel_index(np.argmax(err), err.shape))
        cx.check("proj_symmetric", err.max() <= TOL_LIN, {"max_abs_err": float(err.max()), "row": i, "col": j}, proj=pname)
        rank = int(np.linalg.matrix_rank(p, tol=1e-9))
        cx.check(
            "proj_rank",
            rank == RANKS[pname] and abs(np.trace(p) - RANKS[pname]) <= 1e-9,
            {"rank": rank, "trace": float(np.trace(p)), "want": RANKS[pname]},
            proj=pname,
        )
        # range = fixed space of the point group (unique axis z): P = group average.  The
        # 21-vector layout is taken from the implementation's own (separately checked) maps.
        ref = np.zeros((21, 21))
        usable = True
        for k in range(21):
            e = np.zeros(21)
            e[k] = 1.0
            try:
                cx.res["n"] += 2
                t = R.to_tensor(np.asarray(vm(e)))
                avg = R.group_average(t, groups[pname])
                ref[:, k] = np.asarray(mv(c(R.to_voigt(avg))))
            except Exception:
                usable = False
        if usable and np.isfinite(ref).all():
            err = np.abs(p - ref)
            i, j = (int(x) for x in np.unravel_index(np.argmax(err), err.shape))
            cx.check(
                "proj_symmetry_class_subspace",
                err.max() <= TOL_LIN,
                {"max_abs_err": float(err.max()), "row": i, "col": j, "got": float(p[i, j]), "want": float(ref[i, j]), "group_order": len(groups[pname])},
                proj=pname,
            )
    for a, b in itertools.combinations(CHAIN, 2):  # a is the larger subspace
        if a in pm and b in pm:
            e1 = float(np.abs(pm[a] @ pm[b] - pm[b]).max())
            e2 = float(np.abs(pm[b] @ pm[a] - pm[b]).max())
            cx.check("proj_nested", max(e1, e2) <= TOL_LIN, {"outer_inner": e1, "inner_outer": e2}, dedupe=(a, b), proj=a, inner=b)
    return cx.done({"case": key, "ranks": {k: int(np.linalg.matrix_rank(v, tol=1e-9)) for k, v in pm.items()}})


# ------------------------------------------------------------------ 3x3: invariants, polar


def variant_matrix(base, pre, post):
    return alph.FRAME[pre] @ base @ alph.FRAME[post].T


def run_inv(key):
    cx = Ctx(key)
    base = base_mats()[key["mat"]]
    for pre, post in variants(alph.TIER):
        m = variant_matrix(base, pre, post)
        kk = dict(pre=pre, post=post)
        cx.res["states"] += 1
        out = cx.call("invariants_second_order", c(m), **kk)
        if out is None:
            continue
        ok = isinstance(out, tuple) and len(out) == 3 and all(np.ndim(x) == 0 and np.isfinite(x) for x in out)
        cx.check("shape_finite", ok, {"type": type(out).__name__}, dedupe="inv", fn="invariants_second_order", **kk)
        if not ok:
            continue
        got = np.array([float(x) for x in out])
        cx.obs.append(got)
        eig = np.linalg.eigvals(m).astype(complex)
        want = R.elementary_symmetric(eig)
        s = float(np.sqrt((m * m).sum()))
        for k in range(3):
            tol = 1e-11 * s ** (k + 1) + 1e-300
            err = abs(got[k] - want[k].real)
            cx.check(
                f"invariant_{k + 1}",
                err <= tol and abs(want[k].imag) <= tol,
                {"got": float(got[k]), "want": float(want[k].real), "tol": tol},
                **kk,
            )
        if s > 0:
            cx.res["nontrivial"].append(digest("inv", key["mat"], pre, post))
        cx.res["outcomes"].append(digest(np.round(got / max(s, 1e-300) ** np.array([1, 2, 3]), 9)))
    return cx.done({"case": key, "variants": len(variants(alph.TIER))})


def run_polar(key):
    cx = Ctx(key)
    base = base_mats()[key["mat"]]
    for pre, post in variants(alph.TIER):
        m = variant_matrix(base, pre, post)
        sv = np.linalg.svd(m, compute_uv=False)
        s = float(sv[0])
        rank = int((sv > 1e-8 * s).sum()) if s > 0 else 0
        singular = rank < 3
        cx.res["states"] += 1
        for left in (True, False):
            kk = dict(pre=pre, post=post, left=int(left), rank=rank)
            cx.res["n"] += 1
            cx.res["trans"] += 1
            try:
                out = impl().polar_decompose(c(m), left)
            except Exception as e:
                form = "other"
                if not left and singular:
                    form = "right_near_singular_input_raises_" + type(e).__name__
                cx.check(
                    "polar_noraise",
                    False,
                    {"exception": type(e).__name__, "message": str(e)[:120], "singular_values": sv},
                    dedupe=(left, form),
                    form=form,
                    **kk,
                )
                continue
            cx.check("polar_noraise", True)
            ok = isinstance(out, tuple) and len(out) == 2
            q = np.asarray(out[0]) if ok else None
            st = np.asarray(out[1]) if ok else None
            ok = ok and q.shape == (3, 3) and st.shape == (3, 3)
            if ok:
                cx.obs += [np.ascontiguousarray(q), np.ascontiguousarray(st)]
            fin = ok and bool(np.isfinite(q).all() and np.isfinite(st).all())
            # the stretch alone (unique even for singular input): symmetric, PSD, squares to M^T M / M M^T
            gram = m @ m.T if left else m.T @ m
            stretch_ok = bool(
                fin
                and np.abs(st - st.T).max() <= TOL_ROT * s + 1e-300
                and np.linalg.eigvalsh((st + st.T) / 2).min() >= -TOL_ROT * s - 1e-300
                and np.abs(st @ st - gram).max() <= 1e-11 * s * s + 1e-300
            )

            def form_of():
                if not left and singular and stretch_ok:
                    return "right_near_singular_input_bad_orthogonal_factor_stretch_ok"
                return "other"

            if not cx.check("polar_finite", fin, {"shapes": [list(np.shape(x)) for x in (out if isinstance(out, tuple) else ())]}, dedupe=(left, form_of()), form=form_of(), **kk):
                continue
            e_orth = float(max(np.abs(q.T @ q - np.eye(3)).max(), np.abs(q @ q.T - np.eye(3)).max()))
            cx.check("polar_orthogonal", e_orth <= TOL_ORTH, {"max_abs_QtQ_minus_I": e_orth, "singular_values": sv}, dedupe=(left, form_of()), form=form_of(), **kk)
            e_sym = float(np.abs(st - st.T).max())
            cx.check("polar_stretch_symmetric", e_sym <= TOL_ROT * s + 1e-300, {"defect": e_sym}, dedupe=(left, form_of()), form=form_of(), **kk)
            lam = float(np.linalg.eigvalsh((st + st.T) / 2).min())
            cx.check("polar_stretch_psd", lam >= -TOL_ROT * s - 1e-300, {"min_eigenvalue": lam}, dedupe=(left, form_of()), form=form_of(), **kk)
            prod = st @ q if left else q @ st
            e_prod = float(np.abs(prod - m).max())
            cx.check(
                "polar_product",
                e_prod <= TOL_ROT * s + 1e-300,
                {"max_abs_err": e_prod, "order": "stretch@orthogonal" if left else "orthogonal@stretch", "norm2": s},
                dedupe=(left, form_of()),
                form=form_of(),
                **kk,
            )
            if s > 0:
                cx.res["nontrivial"].append(digest("polar", key["mat"], pre, post, left))
            cx.res["outcomes"].append(digest(np.round(q, 6), np.round(st / max(s, 1e-300), 6)))
    return cx.done({"case": key, "variants": len(variants(alph.TIER))})


# ------------------------------------------------------------------ rotate


def run_rotate(key):
    cx = Ctx(key)
    name = key["letter"]
    t = np.ascontiguousarray(R.to_tensor(letter_matrix(name)))
    nt = R.frob(t)
    scale = max(nt, 1e-300)
    names = list(alph.FRAME)
    rs = np.array([alph.FRAME[k] for k in names])
    nr = len(names)
    ref = R.rotate_many(t, rs)
    outs = []
    whole = bool(np.array_equal(t, np.rint(t)))
    cx.res["states"] += 1
    for a in range(nr):
        o = cx.arr("rotate", cx.call("rotate", c(t), c(rs[a]), letter=name, R=names[a]), (3, 3, 3, 3), letter=name, R=names[a])
        outs.append(o)
        if o is None:
            continue
        cx.res["states"] += 1
        ident = np.array_equal(rs[a], np.eye(3))
        if not ident:
            cx.res["nontrivial"].append(digest("rot", name, names[a]))
        cx.res["outcomes"].append(digest(np.round(o, 9)))
        e = np.abs(o - ref[a])
        p, q, r, s = (int(x) for x in np.unravel_index(np.argmax(e), e.shape))
        cx.check(
            "rotate_law",
            e.max() <= TOL_ROT * scale,
            {"max_abs_err": float(e.max()), "got": float(o[p, q, r, s]), "want": float(ref[a][p, q, r, s]), "at": f"{p}{q}{r}{s}"},
            letter=name,
            R=names[a],
        )
        if a % 3 == 2:
            # the map is linear: a tensor in other units (x 1e-13: compliances in 1/Pa; x 1e13)
            for sc in (1e-13, 1e13):
                osc = cx.arr("rotate", cx.call("rotate", c(t) * sc, c(rs[a]), letter=name + f"@x{sc:g}", R=names[a]), (3, 3, 3, 3), letter=name + f"@x{sc:g}", R=names[a])
                if osc is not None:
                    esc = float(np.abs(osc / sc - ref[a]).max())
                    cx.check("rotate_law", esc <= TOL_ROT * scale, {"max_abs_err_rescaled": esc, "scale": sc}, letter=name + f"@x{sc:g}", R=names[a])
        if a % 3 == 1:
            # the same tensor and rotation in Fortran memory order
            of = cx.arr("rotate", cx.call("rotate", np.asfortranarray(c(t)), np.asfortranarray(c(rs[a])), letter=name + "@F", R=names[a]), (3, 3, 3, 3), letter=name + "@F", R=names[a])
            if of is not None:
                ef = float(np.abs(of - ref[a]).max())
                cx.check("rotate_law", ef <= TOL_ROT * scale, {"max_abs_err": ef}, letter=name + "@F", R=names[a])
        if whole:
            # the same whole-number tensor handed over as an int64 / float32 array
            for tag, dt in (("i64", np.int64), ("f32", np.float32)):
                oi = cx.arr("rotate", cx.call("rotate", np.array(t, dtype=dt), c(rs[a]), letter=name + "@" + tag, R=names[a]), (3, 3, 3, 3), letter=name + "@" + tag, R=names[a])
                if oi is not None:
                    ei = float(np.abs(oi - ref[a]).max())
                    cx.check("rotate_law", ei <= TOL_ROT * scale, {"max_abs_err": ei}, letter=name + "@" + tag, R=names[a])
        no = R.frob(o)
        cx.check("rotate_norm", abs(no - nt) <= TOL_ROT * scale, {"norm_in": nt, "norm_out": no}, letter=name, R=names[a])
        if ident:
            cx.check("rotate_identity", close(o, t, TOL_MAP, scale), {"max_abs_err": float(np.abs(o - t).max())}, letter=name, R=names[a])
        # inverse element
        back = cx.arr("rotate", cx.call("rotate", c(o), c(rs[a].T), letter=name, R=names[a]), (3, 3, 3, 3), letter=name, R=names[a])
        if back is not None:
            cx.check("rotate_inverse", close(back, t, TOL_ROT, scale), {"max_abs_err": float(np.abs(back - t).max())}, letter=name, R=names[a])
        # the rotated (dense) tensor keeps the elastic symmetries, so the Voigt maps are exact inverses on it
        mv = cx.arr("elastic_tensor_to_voigt", cx.call("elastic_tensor_to_voigt", c(ref[a]), letter=name, R=names[a]), (6, 6), letter=name, R=names[a])
        if mv is not None:
            tb = cx.arr("voigt_to_elastic_tensor", cx.call("voigt_to_elastic_tensor", c(mv), letter=name, R=names[a]), (3, 3, 3, 3), letter=name, R=names[a])
            if tb is not None:
                cx.check(
                    "roundtrip_tensor",
                    close(tb, ref[a], TOL_ROT, scale),
                    {"max_abs_err": float(np.abs(tb - ref[a]).max())},
                    letter=name,
                    R=names[a],
                )
    # group action: rotate(rotate(T, R2), R1) == rotate(T, R1 @ R2), all ordered pairs
    r12 = np.einsum("aij,bjk->abik", rs, rs).reshape(nr * nr, 3, 3)
    ref12 = R.rotate_many(t, r12)
    lhs_all = np.zeros((nr * nr, 3, 3, 3, 3))
    rhs_all = np.zeros((nr * nr, 3, 3, 3, 3))
    f = impl().rotate
    for a in range(nr):
        for b in range(nr):
            if outs[b] is None:
                continue
            kk = dict(letter=name, R1=names[a], R2=names[b])
            n = a * nr + b
            cx.res["n"] += 2
            cx.res["trans"] += 2
            try:
                lhs = np.asarray(f(c(outs[b]), c(rs[a])))
                rhs = np.asarray(f(c(t), c(r12[n])))
            except Exception as e:
                cx.check("noraise", False, {"exception": type(e).__name__}, dedupe=("rotate2", type(e).__name__), fn="rotate", exc=type(e).__name__, **kk)
                continue
            if lhs.shape != (3, 3, 3, 3) or rhs.shape != (3, 3, 3, 3):
                cx.check("shape_finite", False, {"shape": list(lhs.shape)}, dedupe="rotate2", fn="rotate", **kk)
                continue
            lhs_all[n], rhs_all[n] = lhs, rhs
            e1 = float(np.abs(lhs - rhs).max())
            cx.check("rotate_compose", e1 <= TOL_ROT * scale, {"max_abs_err": e1}, **kk)
            e2 = float(np.abs(rhs - ref12[n]).max())
            cx.check("rotate_law_product", e2 <= TOL_ROT * scale, {"max_abs_err": e2}, **kk)
            if a and b:
                cx.res["nontrivial"].append(digest("rot2", name, a, b))
    cx.obs += [lhs_all, rhs_all]
    return cx.done({"case": key, "frame_rotations": nr, "ordered_pairs": nr * nr, "tensor_norm": nt})


def finalize(agg, tier, seed):
    return {
        "tensor_letters": len(rotate_letters()),
        "frame_ordered_pairs_per_letter": len(alph.FRAME) ** 2,
        "matrix3x3_inputs": len(base_mats()) * len(variants(tier)),
    }
