"""C02 - solver rates equal the published D-Rex equations (engine A: exhaustive product,
reference model ref/drex_ref.py), compiled and interpreted."""

import itertools
import json
import os
import subprocess
import sys

import numpy as np

from mc import alph
from mc.runner import digest, empty_result, jdump
from props import _rates as R
from ref import drex_ref

PID = "C02"
RULE = (
    "full cross product fabric(6) x dislocation-type regime(2) x normalised velocity-gradient "
    "alphabet (D != 0) x volume-vector letters x parameter settings (<=1 deviation from the "
    "defaults over p, n, lambda*, M*, phi; the FULL 432-setting parameter product on a core of 24 "
    "orientations x 8 gradients) x texture sets (the whole orbit-closed orientation alphabet as one "
    "texture, and the same letters taken 4 at a time), each compared grain by grain with the "
    "reference model; the default-parameter slice and the parameter core are repeated on the "
    "interpreted source (child processes with NUMBA_DISABLE_JIT=1). Grains inside the statement's "
    "exclusion zone (max|I/tau| < 1e-9) are removed from the texture (C03 covers them). "
    "Non-trivial grain evaluation: >= 2 slip systems with non-zero relative slip rate and a "
    "non-zero strain rate; distinct = distinct (case key)."
    " Plus fabric x regime x the 12 whole-number straining gradients x cube rotations x one-grain-holds-all volumes with the inputs typed int64: bit-identical to the float64 call."
)
ASSUMPTIONS = [
    "reference model ref/drex_ref.py restates Kaminski & Ribe 2001 / Kaminski et al. 2004 / Fraters & Billen 2021 in tensor form (trusted, ~60 lines)",
    "tolerance law 1e-11 + 1e-13/max|I/tau| per grain (x10 for energies); exact ties in activity change nothing observable and are not special-cased",
    "compiled-vs-interpreted agreement follows from both agreeing with the reference within the same tolerance",
    "numpy einsum is trusted",
]
BOUND = {
    "quick": "<=1 parameter deviation on the full product; full parameter product on the 24x8 core; 408 orientation letters; 40 gradients; interpreted mode on the default-parameter slice and a 6x3 core",
    "thorough": "<=2 parameter deviations on the full product; 696 orientation letters; all cube conjugates of the generic gradients; interpreted mode on the <=1-deviation product",
}

VOLS = ["uniform", "dominant", "onezero", "dirichlet", "sparse"]
CORE_VG = ["ss_xz", "ss_yx", "ps_xy+", "ax_z-", "sub_zy", "gen0", "gens", "gen0_tr"]


def core_ori():
    names = list(alph.ORI)
    cube = list(alph.CUBE)[:6]
    gen = [k for k in names if k not in alph.CUBE]
    stride = max(1, len(gen) // 18)
    return cube + gen[::stride][:18]


def ALPHABETS():
    return {
        "orientations": len(alph.ORI),
        "velocity_gradients_nonrigid": len([v for v in alph.VG if not v.startswith("rigid")]),
        "volumes": len(VOLS),
        "param_settings_le1": len(alph.param_settings(1)),
        "param_settings_full": len(alph.param_settings(0, full=True)),
        "core_orientations": len(core_ori()),
        "core_gradients": len(CORE_VG),
    }


def warmup():
    R.warm()
    from props import _hist, c03

    _hist.warm()

    c03.warmup()  # compiles the integer-typed signatures


def gen_cases(tier, seed):
    keys = []
    vgs = [v for v in alph.VG if not v.startswith("rigid")]
    prm = [n for n, _ in alph.param_settings(1 if tier == "quick" else 2)]
    # the first key is the determinism self-test case: keep it a plain compiled one
    keys.append(dict(mode="jit", fab="olA", reg="disl", vg="ss_xz", vol="uniform", prm=prm[0], set="grp4"))
    # interpreted source: one child process per (fabric, regime); early, so they overlap
    for fab, reg in itertools.product(alph.FABRICS, alph.DISL):
        keys.append(dict(mode="interp", fab=fab, reg=reg, tier=tier))
    full = [n for n, _ in alph.param_settings(0, full=True)]
    for fab, reg in itertools.product(alph.FABRICS, alph.DISL):
        for vg in vgs:
            for vol in VOLS:
                for p in prm:
                    keys.append(dict(mode="jit", fab=fab, reg=reg, vg=vg, vol=vol, prm=p, set="ORI"))
            keys.append(dict(mode="jit", fab=fab, reg=reg, vg=vg, vol="dirichlet", prm=prm[0], set="grp4"))
    for fab, reg in itertools.product(alph.FABRICS, alph.DISL):
        for vg in CORE_VG:
            keys.append(dict(mode="jit", fab=fab, reg=reg, vg=vg, vol="dominant", prm="FULL", set="core"))
    # whole-number inputs typed int64 are the same inputs (the float64 call is checked against
    # the reference above; the int64-typed calls must reproduce it bit for bit); seed C02f
    from props import c03

    for fab, reg in itertools.product(alph.FABRICS, alph.DISL):
        for vg in c03.WHOLE_VGS:
            if not vg.startswith("rigid"):
                keys.append(dict(mode="dtype", part="dtype", fab=fab, reg=reg, vg=vg))
    for fab, reg in itertools.product(alph.FABRICS, alph.DISL):
        for prm in ZERO_PARAMS:
            keys.append(dict(mode="driver", fab=fab, reg=reg, param=prm))
    return keys


def texture(key, D):
    """Names and orientations of the texture of this case, unresolved grains removed."""
    ph, fb = alph.FABRICS[key["fab"]]
    if key["set"] == "core":
        names = core_ori()
    else:
        names = list(alph.ORI)
    A = np.array([alph.ORI[k] for k in names])
    act = drex_ref.activity(ph, fb, A, D)
    keep = act >= 1e-9
    return [n for n, k in zip(names, keep) if k], np.ascontiguousarray(A[keep]), int((~keep).sum())


def compare(res, key, names, A, f, D, L, prm, rg, ph, fb, extra=None):
    """One implementation call compared with the reference model."""
    p, nn, lam, M, phi = prm["p"], prm["n"], prm["lam"], prm["M"], prm["phi"]
    cl = res["clauses"]
    res["n"] += 1
    res["trans"] += 1

    def V(clause, detail, **kw):
        k = dict(key)
        if extra:
            k.update(extra)
        k.update(kw)
        res["viol"].append({"clause": clause, "key": k, "detail": detail})

    try:
        dA, df = R.call(rg, ph, fb, A, f, D, L, p, nn, lam, M, phi)
    except Exception as e:
        V("call", {"exception": type(e).__name__, "msg": str(e)[:200]}, grain="(call)")
        return None
    with np.errstate(all="ignore"):
        ref = drex_ref.rates(ph, fb, rg, A, f, D, L, p, nn, lam, M, phi)
    tol = R.tol_rate(ref["act"])
    cl["orientation_rate"] = cl.get("orientation_rate", 0) + len(names)
    errA = np.abs(dA - ref["dA"]).max(axis=(1, 2))
    bad = ~(errA <= tol)
    if bad.any():
        i = int(np.argmax(np.where(bad, errA / tol, 0)))
        V(
            "orientation_rate",
            {"n_bad": int(bad.sum()), "err": float(errA[i]), "tol": float(tol[i]), "impl": dA[i], "ref": ref["dA"][i]},
            grain=names[i],
        )
    cl["volume_rate"] = cl.get("volume_rate", 0) + len(names)
    tolE = 10 * tol
    yf = 0.3 if rg == 6 else 1.0
    tolf = yf * phi * M * f * (tolE + np.sum(f * tolE)) + 1e-14 * np.abs(ref["df"]) + 1e-300
    errf = np.abs(df - ref["df"])
    badf = ~(errf <= tolf)
    if badf.any():
        i = int(np.argmax(np.where(badf, errf / tolf, 0)))
        form = "other"
        with np.errstate(all="ignore"):
            r3 = drex_ref.rates(ph, fb, rg, A, f, D, L, p, nn, lam, M, phi, energy_systems=(0, 1, 2))
        if np.all(np.abs(df - r3["df"]) <= tolf):
            form = "energy_sum_systems_0_2"
        V(
            "volume_rate",
            {"n_bad": int(badf.sum()), "err": float(errf[i]), "tol": float(tolf[i]), "impl": float(df[i]), "ref": float(ref["df"][i])},
            grain=names[i],
            form=form,
        )
    nz = (np.abs(ref["beta"]) > 1e-12).sum(axis=1)
    res["notes"]["nontrivial_grain_evals"] = res["notes"].get("nontrivial_grain_evals", 0) + int((nz >= 2).sum())
    res["notes"]["max_err_orientation_rate"] = max(res["notes"].get("max_err_orientation_rate", 0.0), float(errA.max()))
    res["notes"]["max_err_volume_rate"] = max(res["notes"].get("max_err_volume_rate", 0.0), float(errf.max()))
    return dA, df, bool((nz >= 2).any())


ZERO_PARAMS = ["nucleation_efficiency", "gbm_mobility"]  # (the sliding threshold is NOT continuous at 0: a grain of exactly zero volume lies below any positive threshold)


def run_driver(key):
    """Through Mineral.update_orientations: a parameter declared as exactly 0 behaves as the
    limit of a vanishing positive value (1e-300 changes no float64 result), i.e. it is honoured
    and not replaced by a default (seed C02i: `params.get(...) or default`)."""
    from props import _hist as H

    res = empty_result()
    ph, fb = alph.FABRICS[key["fab"]]
    outs = []
    for val in (0.0, 1e-300, 0):
        prm = H.params_for(ph, "default")
        prm[key["param"]] = val
        m = H.build_mineral(dict(fab=key["fab"], reg=key["reg"], tex="random", vol="geometric", ng=8, prm="default"))
        res["n"] += 1
        res["trans"] += 1
        F = H.update(m, prm, np.eye(3), H.flow("gen"), 0.0, 0.4)
        outs.append((np.array(m.orientations[-1]), np.array(m.fractions[-1]), np.asarray(F)))
    res["states"] = 3
    res["clauses"]["zero_parameter_honoured"] = 2
    for j in (1, 2):
        if not all(np.array_equal(a, b) for a, b in zip(outs[0], outs[j])):
            res["viol"].append({"clause": "zero_parameter_honoured", "key": dict(key, against=["", "1e-300", "int 0"][j]), "detail": {"max_fraction_diff": float(np.abs(outs[0][1] - outs[j][1]).max()), "max_orientation_diff": float(np.abs(outs[0][0] - outs[j][0]).max())}})
    res["nontrivial"].append(digest(key))
    res["outcomes"].append(digest(np.round(outs[0][1], 9)))
    res["obs"] = digest(outs[0][0], outs[0][1])
    res["sample"] = {"case": key}
    return res


def run_case(key):
    if key["mode"] == "driver":
        return run_driver(key)
    if key["mode"] == "dtype":
        from props import c03

        return c03.run_dtype(key)
    if key["mode"] == "interp":
        return run_interp(key)
    res = empty_result()
    ph, fb = alph.FABRICS[key["fab"]]
    rg = alph.DISL[key["reg"]]
    L, D = alph.normalised(alph.VG[key["vg"]])
    names, A, dropped = texture(key, D)
    res["notes"]["excluded_grains"] = dropped
    obs = []
    nontriv = False
    if key["set"] == "grp4":
        stride = 53
        order = [(i * stride) % len(names) for i in range(len(names))]
        for g in range(0, len(order) - 3, 4):
            idx = order[g : g + 4]
            f = alph.volumes(key["vol"], 4)
            o = compare(res, key, [names[i] for i in idx], A[idx], f, D, L, alph.param_by_name(key["prm"]), rg, ph, fb, {"group": g // 4})
            if o:
                obs += [o[0], o[1]]
                nontriv |= o[2]
            res["states"] += 1
    elif key["prm"] == "FULL":
        f = alph.volumes(key["vol"], len(names))
        for pn, prm in alph.param_settings(0, full=True):
            o = compare(res, key, names, A, f, D, L, prm, rg, ph, fb, {"prmfull": pn})
            if o:
                obs += [o[0], o[1]]
                nontriv |= o[2]
            res["states"] += 1
    else:
        f = alph.volumes(key["vol"], len(names))
        o = compare(res, key, names, A, f, D, L, alph.param_by_name(key["prm"]), rg, ph, fb)
        if o:
            obs += [o[0], o[1]]
            nontriv |= o[2]
            res["outcomes"].append(digest(np.round(o[1], 9)))
        res["states"] += 1
    if nontriv:
        res["nontrivial"].append(digest(key))
    res["obs"] = digest(*obs)
    res["sample"] = {"case": key, "n_grains": len(names), "excluded": dropped}
    return res


# ---------------------------------------------------------------- interpreted source


def interp_batch(key):
    """Runs inside a process started with NUMBA_DISABLE_JIT=1."""
    res = empty_result()
    tier = key.get("tier", "quick")
    ph, fb = alph.FABRICS[key["fab"]]
    rg = alph.DISL[key["reg"]]
    vgs = [v for v in alph.VG if not v.startswith("rigid")]
    obs = []
    # default-parameter slice over every gradient (thorough: <=1 deviation)
    prms = alph.param_settings(0 if tier == "quick" else 1)
    for vg in vgs:
        L, D = alph.normalised(alph.VG[vg])
        k = dict(key, vg=vg, set="ORI")
        names, A, _ = texture(k, D)
        if tier == "quick":  # every 3rd letter keeps all cube letters' classes and all generic families
            names, A = names[::3], np.ascontiguousarray(A[::3])
        for pn, prm in prms:
            f = alph.volumes("dirichlet", len(names))
            o = compare(res, k, names, A, f, D, L, prm, rg, ph, fb, {"prm": pn, "vol": "dirichlet"})
            if o:
                obs += [o[0], o[1]]
            res["states"] += 1
    # parameter core: 6 orientations x 3 gradients x the full parameter product
    for vg in CORE_VG[:3] if tier == "quick" else CORE_VG:
        L, D = alph.normalised(alph.VG[vg])
        k = dict(key, vg=vg, set="core")
        names, A, _ = texture(k, D)
        if tier == "quick":
            names, A = names[::4], np.ascontiguousarray(A[::4])
        f = alph.volumes("dominant", len(names))
        for pn, prm in alph.param_settings(0, full=True):
            o = compare(res, k, names, A, f, D, L, prm, rg, ph, fb, {"prmfull": pn, "vol": "dominant"})
            if o:
                obs += [o[0], o[1]]
            res["states"] += 1
    res["clauses"] = {c + "_interpreted": v for c, v in res["clauses"].items()}
    for v in res["viol"]:
        v["clause"] += "_interpreted"
    res["notes"] = {k + "_interpreted": v for k, v in res["notes"].items()}
    res["obs"] = digest(*obs)
    res["nontrivial"].append(digest(key))
    res["sample"] = {"case": key, "calls": res["n"]}
    return res


def run_interp(key):
    import numba

    if numba.config.DISABLE_JIT:
        return interp_batch(key)
    env = dict(os.environ, NUMBA_DISABLE_JIT="1")
    out = subprocess.run(
        [sys.executable, "-m", "props.c02", jdump(key)],
        env=env,
        capture_output=True,
        text=True,
        cwd=os.path.dirname(os.path.dirname(os.path.abspath(__file__))),
    )
    for line in out.stdout.splitlines():
        if line.startswith("RESULT "):
            return json.loads(line[7:])
    raise RuntimeError("interpreted child failed: " + out.stderr[-1500:])


if __name__ == "__main__":
    from mc.runner import quiet_pydrex

    k = json.loads(sys.argv[1])
    alph.configure(int(os.environ.get("VERIF_SEED", "0")), os.environ.get("VERIF_TIER", "quick"))
    import numba

    assert numba.config.DISABLE_JIT, "child must run with NUMBA_DISABLE_JIT=1"
    import pydrex  # noqa

    quiet_pydrex()
    r = interp_batch(k)
    print("RESULT " + jdump(r))
