"""C15 - volume-weighted resampling draws grains in proportion to their volume
(engine A: exhaustive product of small alphabets; engine C: the random source is owned by
the harness, so the sampling law becomes an exact counting statement).

Three parts, all on `pydrex.stats.resample_orientations`:

(a) real RNG      shapes, default n_samples, membership of every output (orientation, volume)
                  pair among the input pairs of the same snapshot (exact equality; all input
                  orientations are pairwise distinct), zero-volume grains never drawn, same
                  seed -> bit-identical output, 7-sigma frequency bound for n >= 1e4.
(b) controlled    `numpy.random.default_rng` (what `pydrex.stats` calls) is replaced for the
    RNG           duration of ONE call by a factory returning a generator whose variates are
                  prescribed: the K-point midpoint grid (k+0.5)/K (in a fixed scrambled order)
                  or a constant edge answer (0.0, 2^-53, 1-2^-53, every partial sum of the
                  volume vector and its float neighbours).  Sampling law: |count_i/K - f_i| <=
                  1/K for every grain i (grains identified by their orientation, so duplicate
                  volumes are no obstacle).  Zero-volume exclusion: for every legal answer.
                  The patched attributes are restored in a `finally` block.  If the factory
                  is never called / an unknown generator method is used, the execution is
                  reported as "seam not observed" and only (a) decides.
(c) shapes        every orientation shape of rank 1..5 x every fraction shape of rank 1..3 with
                  dimension sizes from a small alphabet: consistent = (N, M, 3, 3) with (N, M)
                  -> must not raise and must satisfy (a)'s clauses; everything else ->
                  ValueError required.
"""

import itertools

import numpy as np

from mc import alph
from mc.runner import digest, empty_result

PID = "C15"
RULE = (
    "part sample: full cross product N snapshots x M grains x volume-vector letters (uniform, dominant, "
    "one zero, all-but-one zero, duplicates, geometric, seeded dirichlet, cumulative-sum-below-one; "
    "identical vectors merged) x stack letter (roll: same vector rolled by the snapshot index so zeros sit "
    "at different grains in different snapshots; mix: a different letter per snapshot so volume multisets "
    "differ between snapshots) x [real RNG: n_samples letters (default, 1, 2, M, 100, 1e4) x seeds, each "
    "called twice; 100001, 150000 and 234567 samples once each] + [controlled RNG: midpoint grids K in {M(default n_samples), M, 10, 1000} and all "
    "constant edge answers x n_samples in {default, 1, 7}]; orientations are pairwise distinct letters "
    "of the shared orientation alphabet. part shape: all orientation shapes of rank 1..5 x all fraction "
    "shapes of rank 1..3 over the dimension alphabet x n_samples in {default, 2}. A sub-case is "
    "non-trivial when M >= 2 and the volumes are not all equal (the law distinguishes grains); distinct "
    "= distinct (case key, mode, n_samples letter, seed / prescribed-variate letter)."
)
ASSUMPTIONS = [
    "numpy array equality, bincount, cumsum are trusted; the numpy Generator contract is: random() returns "
    "float64 multiples of 2^-53 in [0, 1), hence 0.0 and 1-2^-53 are legal answers",
    "a volume vector is 'normalised' when it is v / v.sum() in float64 (its sequential sum may differ from 1 "
    "by a few ulp)",
    "controlled-RNG law clause assumes the grain drawn is a function of one variate whose preimages are "
    "intervals of length f_i (inverse-CDF sampling); it is evaluated only when the code requests exactly "
    "N x n_samples variates in rows of n_samples through random/uniform/integers/choice, otherwise the "
    "execution is counted as 'seam not observed' and only the real-RNG clauses decide",
    "real-RNG frequency clause is statistical: bound 7*sqrt(f(1-f)/n) + 1/n, n >= 1e4 only "
    "(false-alarm probability < 1e-11 per evaluation for a correct sampler)",
    "monitor observations (seed forwarded to the factory, ValueError raised only after the generator was "
    "created) are reported as notes and never decide",
]
BOUND = {
    "quick": "N<=3, M in {1,2,3,5}, n_samples<=1e4 (+100001, 150000, 234567 once each), seeds 0..3, grids K<=1000, shape dims {1,2,3,4} ranks 1..5 x 1..3",
    "thorough": "N<=4, M in {1,2,3,5,8,13}, n_samples<=1e4 (+1e6 once), seeds 0..7, grids K<=1e5, shape dims {1..5} ranks 1..5 x 1..3",
}

U_MAX = 1.0 - 2.0**-53  # largest float64 below 1: the largest value Generator.random may return
U_MIN = 2.0**-53  # smallest non-zero value Generator.random may return
CTRL_SEED = 12345
VOL_LETTERS = ["uniform", "dominant", "onezero", "allbutone", "dup", "geometric", "dirichlet", "sumlow"]
_REAL_DEFAULT_RNG = np.random.default_rng
_FN = None
_STATS = None


def _cfg(tier):
    if tier == "thorough":
        return dict(Ns=[1, 2, 3, 4], Ms=[1, 2, 3, 5, 8, 13], seeds=8, dims=[1, 2, 3, 4, 5], Ks=[10, 1000, 100000])
    return dict(Ns=[1, 2, 3], Ms=[1, 2, 3, 5], seeds=4, dims=[1, 2, 3, 4], Ks=[10, 1000])


def ALPHABETS():
    c = _cfg(alph.TIER)
    d = len(c["dims"])
    return {
        "snapshots_N": len(c["Ns"]),
        "grains_M": len(c["Ms"]),
        "volume_letters": len(VOL_LETTERS),
        "stack_letters": 2,
        "n_samples_letters_real": 6,
        "seeds": c["seeds"],
        "grid_sizes_K": len(c["Ks"]) + 2,
        "edge_answers_fixed": 3,
        "orientation_shapes": sum(d**r for r in range(1, 6)),
        "fraction_shapes": sum(d**r for r in range(1, 4)),
    }


def warmup():
    global _FN, _STATS
    from pydrex import stats

    _STATS = stats
    _FN = stats.resample_orientations
    # the orientation letters used must be pairwise distinct, else membership is undecidable
    O = _orientations(4, 13)
    flat = O.reshape(-1, 9)
    if len({r.tobytes() for r in flat}) != len(flat):
        raise RuntimeError("orientation letters are not pairwise distinct")


# ------------------------------------------------------------------ alphabets


def _orientations(N, M):
    names = list(alph.ORI)
    L = len(names)
    return np.array([[alph.ORI[names[((s * 16 + g) * 37 + 5) % L]] for g in range(M)] for s in range(N)])


_SUMLOW = {}


def _sumlow(M):
    """Normalised vector (ints / sum) whose ascending running sum ends below 1-2^-53: the case the
    implementation's 'pin the last cumulative value to 1' exists for.  None if there is none
    among small integer ratios."""
    if M not in _SUMLOW:
        found = None
        if M >= 3:
            for ints in itertools.combinations_with_replacement(range(1, 14), M):
                v = np.array(ints, float)
                v = v / v.sum()
                if np.cumsum(v)[-1] < U_MAX:
                    found = v
                    break
        _SUMLOW[M] = found
    return _SUMLOW[M]


def _volume(name, M):
    if name == "sumlow":
        return _sumlow(M)
    return alph.volumes(name, M)


def _vol_letters(M):
    """Letters available for M grains, identical vectors merged (first name wins)."""
    seen, out = set(), []
    for name in VOL_LETTERS:
        v = _volume(name, M)
        if v is None:
            continue
        b = v.tobytes()
        if b in seen:
            continue
        seen.add(b)
        out.append(name)
    return out


def _fractions(name, N, M, stack="roll"):
    """Volume stack.  'roll': every snapshot holds the same vector, rolled by the snapshot index
    (zeros / the dominant grain sit at different grains in different snapshots).  'mix': snapshot
    s holds the s-th next letter (cyclically), also rolled, so that the snapshots have different
    volume multisets and a volume taken from another snapshot is not accidentally a member."""
    letters = _vol_letters(M)
    i = letters.index(name)
    step = 1 if stack == "mix" else 0
    return np.array([np.roll(_volume(letters[(i + step * s) % len(letters)], M), s) for s in range(N)])


def _shapes(dims, ranks):
    out = []
    for r in ranks:
        out.extend(itertools.product(dims, repeat=r))
    return out


def _sname(shape):
    return "x".join(str(d) for d in shape)


def gen_cases(tier, seed):
    c = _cfg(tier)
    keys = []
    for M in c["Ms"]:
        for N in c["Ns"]:
            for vol in _vol_letters(M):
                keys.append({"part": "sample", "N": N, "M": M, "vol": vol, "stack": "roll"})
                if N >= 2 and len(_vol_letters(M)) >= 2:
                    keys.append({"part": "sample", "N": N, "M": M, "vol": vol, "stack": "mix"})
    # large sample counts that are not round numbers (a block-wise draw that drops the
    # remainder: seed C15f), in both tiers; 1e6 once in the thorough tier
    for M, ns in ((5, 2), (5, 3), (5, 4), (200, 100)):
        keys.append({"part": "replacement", "M": M, "ns": ns})
    for ns in (150000, 234567):
        keys.append({"part": "big", "N": 2, "M": 5, "vol": "dominant", "stack": "mix", "ns": ns})
    keys.append({"part": "big", "N": 1, "M": 3, "vol": "dominant", "stack": "roll", "ns": 100001})
    if tier == "thorough":
        keys.append({"part": "big", "N": 2, "M": 5, "vol": "dominant", "stack": "mix", "ns": 10**6})
        keys.append({"part": "big", "N": 2, "M": 5, "vol": "dominant", "stack": "mix", "ns": 10**6 + 7})
    # consistent shapes first (simplest), then by rank
    shapes = _shapes(c["dims"], range(1, 6))
    shapes.sort(key=lambda s: (not (len(s) == 4 and s[2:] == (3, 3)), len(s), s))
    for s in shapes:
        keys.append({"part": "shape", "oshape": _sname(s)})
    return keys


# ------------------------------------------------------------------ controlled random source


class SeamUnsupported(Exception):
    pass


class Prescribed:
    """Stand-in for numpy.random.Generator: every variate is prescribed by `law`.

    law = ("grid",)    -> each requested row of n variates is the n-point midpoint grid
                          (k + 0.5) / n in a fixed scrambled order
    law = ("const", u) -> every variate equals u
    Derived draws (uniform / integers / choice) are the images of those variates under the
    documented inverse-CDF maps, i.e. values a real generator may legally return."""

    def __init__(self, law, log):
        self._law = law
        self._log = log

    def _draw(self, size, method):
        if size is None:
            shape = ()
        elif isinstance(size, (int, np.integer)):
            shape = (int(size),)
        else:
            shape = tuple(int(s) for s in size)
        self._log["draws"].append((method, shape))
        if self._law[0] == "const":
            return np.full(shape, self._law[1], dtype=float)
        n = shape[-1] if shape else 1
        row = midpoint_grid(n)
        out = np.broadcast_to(row, shape if shape else (1,)).copy()
        return out if shape else float(out[0])

    def random(self, size=None, dtype=np.float64, out=None):
        if out is not None:
            raise SeamUnsupported("random(out=)")
        return self._draw(size, "random")

    def uniform(self, low=0.0, high=1.0, size=None):
        u = self._draw(size, "uniform")
        return low + (high - low) * u

    def integers(self, low, high=None, size=None, dtype=np.int64, endpoint=False):
        if high is None:
            low, high = 0, low
        span = int(high) - int(low) + (1 if endpoint else 0)
        u = self._draw(size, "integers")
        k = np.minimum(np.floor(np.asarray(u) * span), span - 1).astype(np.int64) + int(low)
        return k if np.ndim(u) else int(k)

    def choice(self, a, size=None, replace=True, p=None, axis=0, shuffle=True):
        if not replace:
            raise SeamUnsupported("choice(replace=False)")
        pool = np.arange(a) if isinstance(a, (int, np.integer)) else np.asarray(a)
        n = pool.shape[axis]
        u = np.asarray(self._draw(size, "choice"))
        if p is None:
            k = np.minimum(np.floor(u * n), n - 1).astype(np.int64)
        else:
            cp = np.cumsum(np.asarray(p, float))
            k = np.minimum(np.searchsorted(cp / cp[-1], u, side="right"), n - 1)
        return np.take(pool, k, axis=axis)

    def __getattr__(self, name):
        self._log["unsupported"] = name
        raise SeamUnsupported(name)


def midpoint_grid(n):
    """(k + 0.5) / n, k = 0..n-1, visited with a stride coprime to n (a legal generator owes
    no order; a scrambled one keeps accidental monotonicity from hiding pairing errors)."""
    if n <= 0:
        return np.zeros(0)
    stride = 1
    for cand in (7, 11, 13, 17, 19, 23, 3, 5):
        if cand < n and np.gcd(cand, n) == 1:
            stride = cand
            break
    k = (np.arange(n) * stride) % n
    return (k + 0.5) / n


def _patch_targets():
    """(object, attribute) pairs through which pydrex.stats can reach numpy's default_rng."""
    t = [(np.random, "default_rng")]
    for name, val in list(vars(_STATS).items()):
        if val is _REAL_DEFAULT_RNG:
            t.append((_STATS, name))
    return t


def _call_patched(factory, args):
    """One execution of the implementation with the generator factory replaced.
    Returns (output or None, exception or None)."""
    saved = []
    try:
        for obj, name in _patch_targets():
            saved.append((obj, name, getattr(obj, name)))
            setattr(obj, name, factory)
        try:
            return _FN(*args), None
        except Exception as e:  # judged by the caller
            return None, e
    finally:
        for obj, name, val in reversed(saved):
            setattr(obj, name, val)
        if np.random.default_rng is not _REAL_DEFAULT_RNG:
            raise RuntimeError("numpy.random.default_rng not restored")


def call_controlled(O, F, ns, law):
    log = {"factory": 0, "seeds": [], "draws": [], "unsupported": None}

    def factory(seed=None, *a, **k):
        log["factory"] += 1
        log["seeds"].append(seed if isinstance(seed, (int, type(None))) else repr(seed))
        return Prescribed(law, log)

    out, exc = _call_patched(factory, (O, F, ns, CTRL_SEED))
    return out, exc, log


def call_counted(args):
    """Real generator, but count factory calls (monitor for the shape part)."""
    log = {"factory": 0}

    def factory(*a, **k):
        log["factory"] += 1
        return _REAL_DEFAULT_RNG(*a, **k)

    out, exc = _call_patched(factory, args)
    return out, exc, log["factory"]


# ------------------------------------------------------------------ oracle


def _V(res, clause, key, detail):
    res["viol"].append({"clause": clause, "key": key, "detail": detail})


def _cl(res, clause, k=1):
    res["clauses"][clause] = res["clauses"].get(clause, 0) + k


def _match(out_o, in_o):
    """Index of the input grain whose orientation equals each output orientation exactly
    (-1: none).  Inputs are pairwise distinct, so a match is unique."""
    n = out_o.shape[0]
    idx = np.full(n, -1, dtype=np.int64)
    CH = 100000
    for a in range(0, n, CH):
        eq = (out_o[a : a + CH, None] == in_o[None]).all(axis=(2, 3))
        idx[a : a + CH] = np.where(eq.any(axis=1), eq.argmax(axis=1), -1)
    return idx


def judge(res, key, O, F, out, n_exp, u_row=None):
    """Shape, membership and zero-volume clauses on one output.  `key` is the violation key
    prefix.  Returns the (N, n) grain-index array, or None when shapes/membership fail."""
    N, M = F.shape
    _cl(res, "shape")
    ok = isinstance(out, tuple) and len(out) == 2 and all(isinstance(x, np.ndarray) for x in out)
    if ok:
        oo, ff = out
        ok = oo.shape == (N, n_exp, 3, 3) and ff.shape == (N, n_exp)
    if not ok:
        got = [list(np.shape(x)) for x in out] if isinstance(out, (tuple, list)) else type(out).__name__
        form = "other"
        if isinstance(got, list) and len(got) == 2 and len(got[1]) == 2 and got[1][1] != n_exp:
            form = "n_samples_is_N" if got[1][1] == N and N != M else "wrong_sample_count"
        _V(res, "shape", dict(key, form=form), {"expected": [[N, n_exp, 3, 3], [N, n_exp]], "got": got})
        return None
    idx = np.empty((N, n_exp), dtype=np.int64)
    bad_member = None
    for s in range(N):
        idx[s] = _match(oo[s], O[s])
        pair_ok = (idx[s] >= 0) & (ff[s] == F[s][np.maximum(idx[s], 0)])
        if not pair_ok.all() and bad_member is None:
            j = int(np.argmin(pair_ok))
            if idx[s, j] < 0:
                other = any((O[t] == oo[s, j]).all(axis=(1, 2)).any() for t in range(N) if t != s)
                form = "orientation_of_other_snapshot" if other else "orientation_not_an_input"
            elif (F[s] == ff[s, j]).any():
                form = "volume_of_other_grain_same_snapshot"
            elif (F == ff[s, j]).any():
                form = "volume_of_other_snapshot"
            else:
                form = "volume_not_an_input"
            bad_member = (
                form,
                {
                    "snapshot": s,
                    "sample": j,
                    "n_bad_in_snapshot": int((~pair_ok).sum()),
                    "out_orientation": oo[s, j],
                    "out_volume": float(ff[s, j]),
                    "matched_grain": int(idx[s, j]),
                    "volumes_of_snapshot": F[s],
                },
            )
    _cl(res, "member", N * n_exp)
    if bad_member is not None:
        _V(res, "member", dict(key, form=bad_member[0]), bad_member[1])
    # zero-volume grains never drawn (grain identity = orientation)
    _cl(res, "zerovol", N * n_exp)
    drawn_zero = (idx >= 0) & (np.take_along_axis(F, np.maximum(idx, 0), axis=1) == 0)
    if drawn_zero.any():
        s, j = (int(x) for x in np.argwhere(drawn_zero)[0])
        if u_row is None:
            form, uj = "real_rng", None
        else:
            us = np.broadcast_to(u_row, (N, n_exp))[drawn_zero]
            form = "u_exactly_0" if (us == 0.0).all() else "u_positive"
            uj = float(np.broadcast_to(u_row, (N, n_exp))[s, j])
        _V(
            res,
            "zerovol",
            dict(key, form=form),
            {"snapshot": s, "sample": j, "grain": int(idx[s, j]), "variate": uj, "n_drawn_zero": int(drawn_zero.sum()), "volumes_of_snapshot": F[s]},
        )
    return idx if bad_member is None else None


def law_counts(res, key, F, idx, K, bound, clause):
    """Per-grain frequency clause: |count_i / K - f_i| <= bound_i."""
    N, M = F.shape
    _cl(res, clause, N * M)
    worst = None
    for s in range(N):
        cnt = np.bincount(idx[s], minlength=M).astype(float)
        dev = np.abs(cnt / K - F[s])
        b = bound(F[s], K)
        over = dev - b
        if (over > 0).any():
            i = int(np.argmax(over))
            if worst is None or over[i] > worst[0]:
                uniform = M >= 2 and np.abs(cnt - K / M).max() <= 1.0 and np.ptp(F[s]) > 0
                worst = (
                    float(over[i]),
                    "counts_uniform_over_grains" if uniform else "other",
                    {"snapshot": s, "grain": i, "count": cnt, "K": K, "volumes": F[s], "deviation": float(dev[i]), "bound": float(np.broadcast_to(b, dev.shape)[i])},
                )
    if worst is not None:
        _V(res, clause, dict(key, form=worst[1]), worst[2])
    return worst is None


def _b_exact(f, K):
    return 1.0 / K + 1e-12


def _b_stat(f, n):
    return 7.0 * np.sqrt(f * (1.0 - f) / n) + 1.0 / n


# ------------------------------------------------------------------ part (a)+(b): sampling


def _ns_letters(M):
    out, seen = [], set()
    for letter, val in [("default", None), ("1", 1), ("2", 2), ("M", M), ("100", 100), ("10000", 10000)]:
        eff = M if val is None else val
        if letter != "default" and eff in seen:
            continue
        if letter != "default":
            seen.add(eff)
        out.append((letter, val))
    return out


def _edge_letters(F):
    """Constant answers: the two ends of the legal range, the smallest non-zero answer, and
    every partial sum (ascending order and input order, as numpy accumulates them) of every
    snapshot's volumes with both float neighbours - all restricted to [0, 1-2^-53], merged
    by value."""
    cand = [("0", 0.0), ("2^-53", U_MIN), ("1-2^-53", U_MAX)]
    for s, f in enumerate(F):
        for tag, c in ((f"cs{s}.", np.cumsum(np.sort(f))), (f"co{s}.", np.cumsum(f))):
            for j, x in enumerate(c[:-1]):
                cand.append((f"{tag}{j}", float(x)))
                cand.append((f"{tag}{j}-", float(np.nextafter(x, -1.0))))
                cand.append((f"{tag}{j}+", float(np.nextafter(x, 2.0))))
    out, seen = [], set()
    for name, u in cand:
        if not (0.0 <= u <= U_MAX) or u in seen:
            continue
        # the generator returns multiples of 2^-53 only
        if u * 2.0**53 != np.floor(u * 2.0**53):
            continue
        seen.add(u)
        out.append((name, u))
    return out


def run_sample(key):
    res = empty_result()
    c = _cfg(alph.TIER)
    N, M, vol = key["N"], key["M"], key["vol"]
    O = _orientations(N, M)
    F = _fractions(vol, N, M, key["stack"])
    nontriv = M >= 2 and np.ptp(F[0]) > 0
    obs = []
    base = dict(key)

    def book(sub, out):
        if nontriv:
            res["nontrivial"].append(digest(key, sub))
        res["outcomes"].append(digest(*out) if out is not None else "exc")

    # ---- (a) real generator
    nondet = []
    for (nsl, ns), seed in itertools.product(_ns_letters(M), range(c["seeds"])):
        n_exp = M if ns is None else ns
        k = dict(base, mode="real", ns=nsl, seed=seed)
        outs = []
        # both calls get the SAME array objects (a caller's arrays, float64, rows not
        # sorted): "reproducible for a given seed" must not depend on the first call having
        # left its inputs alone (seed C15c sorted the caller's fractions in place)
        Oc, Fc = O.copy(), F.copy()
        for rep in range(2):
            res["n"] += 1
            res["trans"] += 1
            try:
                outs.append(_FN(Oc, Fc, ns, seed))
            except Exception as e:
                outs.append(e)
        # observational only (the statement does not forbid touching the inputs as such;
        # what it does require - reproducibility, membership - is judged below)
        if not (np.array_equal(Oc, O) and np.array_equal(Fc, F, equal_nan=True)):
            res["notes"]["observed_inputs_modified_in_place"] = res["notes"].get("observed_inputs_modified_in_place", 0) + 1
        res["states"] += 1
        _cl(res, "noraise")
        if isinstance(outs[0], Exception) or isinstance(outs[1], Exception):
            e = outs[0] if isinstance(outs[0], Exception) else outs[1]
            _V(res, "noraise", dict(k, exc=type(e).__name__), {"exception": repr(e)[:200]})
            obs.append(type(e).__name__)
            book(("real", nsl, seed), None)
            continue
        obs += list(outs[0])
        book(("real", nsl, seed), outs[0])
        idx = judge(res, k, O, F, outs[0], n_exp)
        _cl(res, "repro")
        same = all(
            isinstance(b, np.ndarray) and a.shape == b.shape and a.tobytes() == b.tobytes()
            for a, b in zip(outs[0], outs[1])
        )
        if not same:
            nondet.append({"ns": nsl, "seed": seed, "first_call": [x[0, :2] for x in outs[0]], "second_call": [x[0, :2] for x in outs[1]]})
        if idx is not None and n_exp >= 10000:
            law_counts(res, k, F, idx, n_exp, _b_stat, "law_real")

    if nondet:
        # one violation per case (which (n_samples, seed) sub-cases differ is itself a matter of
        # chance for small n, so they are listed in the detail, not in the key)
        _V(res, "repro", dict(base, mode="real", form="two_calls_same_seed_differ"), {"n_subcases_differing": len(nondet), "first": nondet[0]})

    # ---- (b) controlled generator
    # plan = (variate letter, n_samples letter, law, n_samples argument, expected sample count)
    plans = [("gridM", "default", ("grid",), None, M), ("gridM", "M", ("grid",), M, M)]
    plans += [(f"grid{K}", str(K), ("grid",), K, K) for K in c["Ks"] if K != M]
    for ul, u in _edge_letters(F):
        for nsl, ns in (("default", None), ("1", 1), ("7", 7)):
            plans.append((ul, nsl, ("const", u), ns, M if ns is None else ns))
    for ul, nsl, law, ns, n_exp in plans:
        plan = f"{ul}/{nsl}"
        k = dict(base, mode="ctrl", ns=nsl, u=ul)
        res["n"] += 1
        res["trans"] += 1
        res["states"] += 1
        out, exc, log = call_controlled(O.copy(), F.copy(), ns, law)
        observed = log["factory"] > 0 and len(log["draws"]) > 0 and log["unsupported"] is None
        if isinstance(exc, SeamUnsupported) or log["unsupported"] is not None or not observed:
            # the seam is not there (or not understood): never a violation, (a) decides alone
            res["notes"]["seam_not_observed"] = res["notes"].get("seam_not_observed", 0) + 1
            obs.append("noseam")
            continue
        res["notes"]["seam_observed"] = res["notes"].get("seam_observed", 0) + 1
        if CTRL_SEED in log["seeds"]:
            res["notes"]["seed_forwarded_to_factory"] = res["notes"].get("seed_forwarded_to_factory", 0) + 1
        _cl(res, "noraise")
        if exc is not None:
            _V(res, "noraise", dict(k, exc=type(exc).__name__), {"exception": repr(exc)[:200], "draw_requests": log["draws"][:4]})
            obs.append(type(exc).__name__)
            book(("ctrl", plan), None)
            continue
        obs += list(out) if isinstance(out, tuple) else [repr(out)]
        book(("ctrl", plan), out if isinstance(out, tuple) else None)
        u_row = midpoint_grid(n_exp) if law[0] == "grid" else np.full(n_exp, law[1])
        idx = judge(res, k, O, F, out, n_exp, u_row=u_row)
        if law[0] != "grid" or idx is None:
            continue
        # gate: the code asked for N rows of n_exp variates (N calls of n, or one (N, n) call)
        rows = 0
        gate = True
        for method, shape in log["draws"]:
            if not shape or shape[-1] != n_exp:
                gate = False
            rows += int(np.prod(shape[:-1])) if shape else 0
        if not gate or rows != N:
            res["notes"]["law_gate_closed"] = res["notes"].get("law_gate_closed", 0) + 1
            continue
        law_counts(res, k, F, idx, n_exp, _b_exact, "law")

    # an implementation that is not a function of its seed has no stable output digest: the repro
    # clause reports it, the digest is then a constant so that the finding replays as a verdict
    res["obs"] = digest("not-a-function-of-the-seed") if nondet else digest(*obs)
    res["sample"] = {"case": key, "real_executions": len(_ns_letters(M)) * c["seeds"] * 2, "controlled_executions": len(plans), "volumes_snapshot0": F[0].tolist()}
    return res


def run_big(key):
    """n_samples = 1e6 once (thorough): shapes, membership, zero-volume, reproducibility and the
    statistical frequency bound with the real generator."""
    res = empty_result()
    N, M, ns = key["N"], key["M"], key["ns"]
    O = _orientations(N, M)
    F = _fractions(key["vol"], N, M, key["stack"])
    k = dict(key, mode="real", seed=0)
    res["n"] = res["trans"] = 2
    res["states"] = 1
    _cl(res, "noraise")
    try:
        a = _FN(O, F, ns, 0)
        b = _FN(O, F, ns, 0)
    except Exception as e:
        _V(res, "noraise", dict(k, exc=type(e).__name__), {"exception": repr(e)[:200]})
        res["obs"] = type(e).__name__
        return res
    idx = judge(res, k, O, F, a, ns)
    # the same orientations / volumes in Fortran memory order: the same draw
    _cl(res, "layout_irrelevant")
    try:
        c_ = _FN(np.asfortranarray(O), np.asfortranarray(F), ns, 0)
        if not all(x.tobytes() == y.tobytes() for x, y in zip(a, c_)):
            _V(res, "layout_irrelevant", dict(k, form="fortran_order_differs"), {})
    except Exception as e:
        _V(res, "layout_irrelevant", dict(k, exc=type(e).__name__), {"exception": repr(e)[:200]})
    # the caller refills its (N, M) buffers IN PLACE for the next texture and calls again with
    # the same array objects: the draw follows the new contents (seed C15h: a memo keyed on the
    # identity of the fractions array)
    _cl(res, "inplace_refill")
    try:
        O2, F2 = np.array(O, float), np.array(F, float)
        _FN(O2, F2, ns, 0)
        F2[:] = np.roll(F2, 1, axis=1)
        F2[:, 0] = 0.0
        F2 /= F2.sum(axis=1, keepdims=True)
        O2[:] = O2[:, ::-1]
        got = _FN(O2, F2, ns, 0)
        want = _FN(O2.copy(), F2.copy(), ns, 0)
        if not all(x.tobytes() == y.tobytes() for x, y in zip(got, want)):
            _V(res, "inplace_refill", dict(k, form="second_call_on_refilled_buffers_differs_from_fresh_copies"), {"n_zero_volume_drawn": int((np.asarray(got[1]) == 0).sum())})
    except Exception as e:
        _V(res, "inplace_refill", dict(k, exc=type(e).__name__), {"exception": repr(e)[:200]})
    _cl(res, "repro")
    nondet = not all(x.tobytes() == y.tobytes() for x, y in zip(a, b))
    if nondet:
        _V(res, "repro", dict(k, form="two_calls_same_seed_differ"), {})
    if idx is not None:
        law_counts(res, k, F, idx, ns, _b_stat, "law_real")
    res["nontrivial"].append(digest(key))
    res["outcomes"].append(digest(*a))
    res["obs"] = digest("not-a-function-of-the-seed") if nondet else digest(*a)
    res["sample"] = {"case": key}
    return res


# ------------------------------------------------------------------ part (c): shapes


def run_shape(key):
    res = empty_result()
    c = _cfg(alph.TIER)
    oshape = tuple(int(d) for d in key["oshape"].split("x"))
    O = np.arange(int(np.prod(oshape)), dtype=float).reshape(oshape) + 1.0
    obs = []
    for fshape in _shapes(c["dims"], range(1, 4)):
        F = np.full(fshape, 1.0 / fshape[-1])
        consistent = len(oshape) == 4 and oshape[2:] == (3, 3) and len(fshape) == 2 and oshape[:2] == fshape
        for nsl, ns in (("default", None), ("2", 2)):
            res["n"] += 1
            res["trans"] += 1
            out, exc, made = call_counted((O.copy(), F.copy(), ns, 0))
            k = {"part": "shape", "oshape": key["oshape"], "fshape": _sname(fshape), "ns": nsl}
            if consistent:
                _cl(res, "accept")
                if exc is not None:
                    _V(res, "accept", dict(k, exc=type(exc).__name__, form="consistent_shapes_rejected"), {"exception": repr(exc)[:200]})
                    obs.append("E:" + type(exc).__name__)
                    continue
                n_exp = fshape[1] if ns is None else ns
                judge(res, dict(k, mode="real", seed=0), O, F, out, n_exp)
                obs += list(out) if isinstance(out, tuple) else [repr(out)]
                res["outcomes"].append("accepted")
                res["nontrivial"].append(digest(k))
                continue
            _cl(res, "reject")
            lead = len(oshape) >= 2 and len(fshape) == 2 and oshape[:2] == fshape
            vk = dict(
                k,
                orank=len(oshape),
                frank=len(fshape),
                otail=_sname(oshape[2:]) if len(oshape) == 4 else "-",
                lead_match=int(lead),
            )
            if exc is None:
                form = "accepted_other"
                try:
                    oo, ff = out
                    if len(oshape) == 4 and lead and oo.shape[2:] == (3, 3):
                        want = {np.broadcast_to(O[s, g], (3, 3)).tobytes() for s in range(oshape[0]) for g in range(oshape[1])}
                        if all(np.ascontiguousarray(m).tobytes() in want for m in oo.reshape(-1, 3, 3)):
                            form = "accepted_and_broadcast_to_3x3"
                    detail = {"out_shapes": [list(oo.shape), list(ff.shape)], "first_out_matrix": oo.reshape(-1, 3, 3)[0]}
                except Exception:
                    detail = {"out": repr(out)[:200]}
                _V(res, "reject", dict(vk, form=form), detail)
                obs.append("accepted")
                res["outcomes"].append("wrongly_accepted:" + form)
            elif isinstance(exc, ValueError):
                obs.append("V")
                res["outcomes"].append("ValueError" + ("_late" if made else ""))
                if made:
                    res["notes"]["valueerror_only_after_generator_created"] = res["notes"].get("valueerror_only_after_generator_created", 0) + 1
            else:
                _V(res, "reject", dict(vk, form="raises_" + type(exc).__name__), {"exception": repr(exc)[:200]})
                obs.append("E:" + type(exc).__name__)
                res["outcomes"].append("raises_" + type(exc).__name__)
    res["states"] = 1
    res["obs"] = digest(*obs)
    if len(oshape) == 4 and oshape[2:] in ((3, 3), (1, 1), (1, 3)):
        res["sample"] = {"case": key, "fraction_shapes": len(_shapes(c["dims"], range(1, 4)))}
    return res


def run_case(key):
    if _FN is None:
        warmup()
    if key["part"] == "sample":
        return run_sample(key)
    if key["part"] == "big":
        return run_big(key)
    if key["part"] == "replacement":
        return run_replacement(key)
    return run_shape(key)


def run_replacement(key):
    """Down-sampling (n_samples below the number of grains): grains are still drawn WITH
    replacement, in proportion to their volume - with a grain holding 90 % of the volume, over
    the fixed seeds 0..31 some draw must contain that grain more than once (the chance that
    none does is < 1e-40 for n_samples = 3), and its overall share of the drawn grains must be
    near 0.9 (seed C15h: a without-replacement branch for down-sampling)."""
    res = empty_result()
    M, ns = key["M"], key["ns"]
    O = _orientations(1, M)
    F = np.full((1, M), 0.1 / (M - 1))
    F[0, M // 2] = 0.9
    hits = tot = 0
    maxmult = 0
    for seed in range(32):
        res["n"] += 1
        res["trans"] += 1
        try:
            out = _FN(O.copy(), F.copy(), ns, seed)
        except Exception as e:
            _V(res, "noraise", dict(key, exc=type(e).__name__, seed=seed), {"exception": repr(e)[:200]})
            res["obs"] = type(e).__name__
            return res
        f = np.asarray(out[1])[0]
        k = int((f == 0.9).sum())
        hits += k
        tot += f.size
        maxmult = max(maxmult, k)
    res["states"] = 32
    _cl(res, "with_replacement")
    if maxmult < 2 or not (0.8 <= hits / tot <= 0.97):
        _V(res, "with_replacement", dict(key), {"max_multiplicity_of_dominant_grain": maxmult, "share_of_dominant_grain": hits / tot, "expected_share": 0.9})
    res["nontrivial"].append(digest(key))
    res["outcomes"].append(digest(hits, maxmult))
    res["obs"] = digest(hits, maxmult)
    res["sample"] = {"case": key, "share": hits / tot, "max_multiplicity": maxmult}
    return res


def finalize(agg, tier, seed):
    n = agg["notes"]
    seen, missing = n.get("seam_observed", 0), n.get("seam_not_observed", 0)
    if seen and not missing:
        seam = f"observed in all {seen} controlled executions (numpy.random.default_rng as reached from pydrex.stats)"
    elif seen:
        seam = f"observed in {seen} controlled executions; seam not observed in {missing} (those fall back to the real-RNG clauses)"
    else:
        seam = "seam not observed: controlled-RNG clauses not evaluated, real-RNG clauses decide alone"
    return {
        "controlled_rng_seam": seam,
        "law_clause_gate_closed": int(n.get("law_gate_closed", 0)),
    }
