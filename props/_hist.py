"""Engine B - explicit-state exploration of update histories on real `Mineral` objects.

A state is (mineral(s), F, t, accumulated strain, N updates); it is reached by applying
update letters to a root; children are produced from a deep copy of the parent (Mineral
copies fine), so every transition is a real call of `Mineral.update_orientations` /
`pydrex.update_all`.  Property-specific invariants, reference models and lock-step twins
are evaluated on every transition.  Used by C01, C04 (textures), C05, C06, C07, C08, C09.
"""

import copy
import itertools

import numpy as np
from scipy.integrate import solve_ivp
from scipy.linalg import expm

from mc import alph
from mc.runner import digest, empty_result

_pd = None


def pd():
    global _pd
    if _pd is None:
        import pydrex

        from mc.runner import quiet_pydrex

        quiet_pydrex()
        _pd = pydrex
    return _pd


# ------------------------------------------------------------------ flows (update letters)


class Flow:
    """A velocity-gradient field L(t, x) together with a pathline x(t)."""

    def __init__(self, name, L, x, const=None):
        self.name, self.L, self.x, self.const = name, L, x, const

    def strain(self, t0, t1):
        """Accumulated strain: integral of max|eig D| dt (trapezoid on 64 points)."""
        if self.const is not None:
            D = (self.const + self.const.T) / 2
            return abs(t1 - t0) * np.abs(np.linalg.eigvalsh(D)).max()
        ts = np.linspace(t0, t1, 65)
        v = []
        for t in ts:
            Lt = self.L(t, self.x(t))
            v.append(np.abs(np.linalg.eigvalsh((Lt + Lt.T) / 2)).max())
        return abs(np.trapezoid(v, ts))


def _const_flow(name, L):
    L = np.array(L, float)
    return Flow(name, lambda t, x, L=L: L.copy(), lambda t: np.zeros(3), const=L)


def flows():
    out = {}
    ss = np.zeros((3, 3))
    ss[0, 2] = 2.0
    out["ss_xz"] = _const_flow("ss_xz", ss)
    for i, j in [(0, 1), (1, 0), (1, 2), (2, 0), (2, 1)]:  # the other five axis-aligned simple shears
        m = np.zeros((3, 3))
        m[i, j] = 2.0
        out["ss_" + "xyz"[i] + "xyz"[j]] = _const_flow("ss_" + "xyz"[i] + "xyz"[j], m)
    out["ps_xy"] = _const_flow("ps_xy", np.diag([1.0, -1.0, 0.0]))
    g, _ = alph.normalised(alph.VG["gen0"])
    out["gen"] = _const_flow("gen", g)
    gt = alph.VG["gens_tr"]
    gt = gt / np.abs(np.linalg.eigvalsh((gt + gt.T) / 2)).max()
    out["gentr"] = _const_flow("gentr", gt)
    La, _ = alph.normalised(alph.VG["sub_yx"])
    Lb, _ = alph.normalised(alph.VG["gens"])
    out["time"] = Flow(
        "time",
        lambda t, x: La * np.cos(1.3 * t) + Lb * np.sin(1.3 * t),
        lambda t: np.zeros(3),
    )
    Lc, _ = alph.normalised(alph.VG["ax_z-"])
    out["pos"] = Flow(
        "pos",
        lambda t, x: 0.6 * g + 0.5 * x[0] * La + 0.5 * x[2] * Lc,
        lambda t: np.array([np.cos(0.7 * t), 0.0, np.sin(0.7 * t)]),
    )
    # periodic in time with period 1/2: the gradient takes exactly the same value at t = 0, 1/2, 1, ...
    # (an update over a whole number of periods sees equal values at its start, middle and end)
    out["per"] = Flow("per", lambda t, x: 0.8 * np.cos(4.0 * np.pi * t) * La + 0.4 * Lb, lambda t: np.zeros(3))
    out["zero"] = _const_flow("zero", np.zeros((3, 3)))
    rg = np.zeros((3, 3))
    rg[0, 2], rg[2, 0] = 1.0, -1.0
    out["rigid"] = _const_flow("rigid", rg)
    # shear that fades into a pure spin: the strain rate is exactly zero for t >= 0.3
    out["tospin"] = Flow("tospin", lambda t, x: max(0.0, 1.0 - t / 0.3) * ss + rg, lambda t: np.zeros(3))
    return out


FLOWS = None


def flow(name):
    global FLOWS
    if FLOWS is None:
        FLOWS = flows()
    if name == "i64_ss":
        # simple shear x-z typed with integer literals: the callable returns int64 arrays
        Li = np.array([[0, 0, 2], [0, 0, 0], [0, 0, 0]])
        return Flow("i64_ss", lambda t, x, Li=Li: Li.copy(), lambda t: np.zeros(3, dtype=np.int64), const=Li.astype(float))
    if name == "i64_ss1":
        # simple shear typed with integer literals whose strain rate has half-integer entries
        Li = np.array([[0, 0, 1], [0, 0, 0], [0, 0, 0]])
        return Flow("i64_ss1", lambda t, x, Li=Li: Li.copy(), lambda t: np.zeros(3), const=Li.astype(float))
    if name == "st_gen":
        # environment answer "the callable hands out the SAME array object on every call"
        # (un-normalised generic gradient); built afresh for every request so that a tree that
        # writes into the caller's array cannot carry that damage from one case to the next
        L = 1.7 * FLOWS["gen"].const
        return Flow("st_gen", lambda t, x, L=L: L, lambda t: np.zeros(3), const=L.copy())
    return FLOWS[name]


def rotated_flow(fl, Q):
    """The same physical flow expressed in a frame rotated by Q."""
    c = None if fl.const is None else Q @ fl.const @ Q.T
    return Flow(fl.name + "@Q", lambda t, x: Q @ fl.L(t, Q.T @ x) @ Q.T, lambda t: Q @ fl.x(t), const=c)


_LBUF = np.zeros((3, 3))
_XBUF = np.zeros(3)


def buffered(fl):
    """Environment answer "the callables write into ONE output buffer and hand that same array
    object out on every call, with updated contents" (a common way to avoid allocations in
    user code).  Used for the twin member of every lock-step comparison: an implementation
    that keeps what it was handed from one evaluation to the next (a cache keyed on the
    identity of the array, seed C04f) then works from stale values."""

    def L(t, x):
        _LBUF[...] = fl.L(t, x)
        return _LBUF

    def X(t):
        _XBUF[...] = fl.x(t)
        return _XBUF

    return Flow(fl.name + "@buf", L, X, const=fl.const)


def scaled_flow(fl, k):
    """L -> k L with the time axis compressed by 1/k (same strain path)."""
    c = None if fl.const is None else k * fl.const
    return Flow(fl.name + "*k", lambda t, x: k * fl.L(k * t, x), lambda t: fl.x(k * t), const=c)


STEP_LETTERS = [(f, dt) for f in ("ss_xz", "ps_xy", "gen", "gentr", "time", "pos") for dt in (0.1, 0.5)]


def letter_name(lt):
    return f"{lt[0]}:{lt[1]}"


# ------------------------------------------------------------------ roots

REGIMES = {"disl": 4, "yield": 6, "minvisc": 0, "diff": 1, "maxvisc": 7}
TEXTURES = ["random", "cluster", "girdle", "single", "aligned", "aligned_i64", "random_fortran", "random_tview"]
VOLS = ["uniform", "geometric", "onehot_i64"]
NGRAINS = [5, 2, 3, 8, 1]
PRM = {  # name -> overrides (default first)
    "default": {},
    "M0": {"gbm_mobility": 0.0},
    "M10": {"gbm_mobility": 10.0},
    "M200": {"gbm_mobility": 200.0},
    "chi0": {"gbs_threshold": 0.0},
    "chi0.9": {"gbs_threshold": 0.9},
    "lam0": {"nucleation_efficiency": 0.0},
    "lam10": {"nucleation_efficiency": 10.0},
    "p1": {"stress_exponent": 1.0},
    "p2": {"stress_exponent": 2.0},
    "n2": {"deformation_exponent": 2.0},
    "n5": {"deformation_exponent": 5.0},
    "M200chi0.9": {"gbm_mobility": 200.0, "gbs_threshold": 0.9},
    "M0chi0": {"gbm_mobility": 0.0, "gbs_threshold": 0.0},
}
F0S = {
    "I": np.eye(3),
    "shear": np.array([[1.0, 0.0, 0.8], [0.0, 1.0, 0.0], [0.0, 0.0, 1.0]]),
    "stretch": np.diag([1.5, 0.9, 1.1]),
    "rotstretch": None,  # filled lazily (needs alph)
    "generic": np.array([[1.1, 0.3, -0.2], [0.1, 0.9, 0.4], [-0.3, 0.2, 1.2]]),
    # a whole-number gradient typed with integer literals (an int64 ndarray)
    "shear_i64": np.array([[1, 0, 1], [0, 1, 0], [0, 0, 1]]),
}


def f0(name):
    if name == "generic_fortran":  # the non-symmetric "generic" gradient in Fortran memory order
        return np.asfortranarray(F0S["generic"].copy())
    if name == "generic_tview":  # ... handed over as a transposed view
        return np.ascontiguousarray(F0S["generic"].T).T
    if name == "rotstretch":
        return alph.GEN["g0"] @ np.diag([1.3, 0.8, 1.05])
    return F0S[name].copy()


def params_for(phase, prm, assemblage=None, fractions=None):
    p = pd().DefaultParams().as_dict()
    p.update(PRM[prm])
    if assemblage is None:
        assemblage, fractions = (pd().MineralPhase(phase),), (1.0,)
    p["phase_assemblage"] = tuple(assemblage)
    p["phase_fractions"] = tuple(fractions)
    return p


def root_keys(tier, regimes, dev=1, prms=None, extra=None):
    """Roots: full product fabric x regime, times all points within <= dev deviations of the
    default over (texture, volumes, n_grains, parameter set)."""
    axes = {
        "tex": TEXTURES,
        "vol": VOLS,
        "ng": NGRAINS,
        "prm": prms or list(PRM),
    }
    names = list(axes)
    pts = []
    for nd in range(dev + 1):
        for sub in itertools.combinations(range(len(names)), nd):
            for vals in itertools.product(*[range(1, len(axes[names[a]])) for a in sub]):
                pt = {k: axes[k][0] for k in names}
                for a, v in zip(sub, vals):
                    pt[names[a]] = axes[names[a]][v]
                pts.append(pt)
    keys = []
    for fab in alph.FABRICS:
        for reg in regimes:
            for pt in pts:
                k = dict(part="hist", fab=fab, reg=reg, **pt)
                if extra:
                    k.update(extra)
                keys.append(k)
    return keys


def build_mineral(key, A=None, f=None, regime=None):
    ph, fb = alph.FABRICS[key["fab"]]
    n = key["ng"]
    if A is None:
        A = alph.texture(key["tex"], n)
    if f is None:
        f = alph.volumes(key["vol"], n)
    return pd().Mineral(
        phase=ph,
        fabric=fb,
        regime=REGIMES[key["reg"]] if regime is None else regime,
        n_grains=n,
        fractions_init=np.array(f).copy() if np.asarray(f).dtype.kind == "i" else np.array(f, float).copy(),
        # integer-typed textures are handed over as they are (legal ndarrays)
        # and so are non-C-contiguous ones (Fortran order, transposed views): same numbers
        orientations_init=A if (isinstance(A, np.ndarray) and not A.flags.c_contiguous) else (np.array(A).copy() if np.asarray(A).dtype.kind == "i" else np.array(A, float).copy()),
    )


class UpdateTimeout(Exception):
    """An update used more than UPDATE_LIMIT_S of CPU time (a normal update: milliseconds)."""


UPDATE_LIMIT_S = 20.0


class time_limit:
    """Bound the wall time of one implementation call (the solver calls back into Python
    on every right-hand-side evaluation, so the alarm is delivered promptly).  A model
    checker must terminate even when a broken implementation makes the ODE arbitrarily
    stiff; callers treat the timeout like any other exception of the update."""

    def __init__(self, seconds=None):
        self.seconds = seconds or UPDATE_LIMIT_S

    def __enter__(self):
        import signal

        def handler(signum, frame):
            # never interrupt a JIT compilation (a new type signature met in a worker):
            # re-arm instead
            try:
                from numba.core.compiler_lock import global_compiler_lock

                if global_compiler_lock.is_locked():
                    signal.setitimer(signal.ITIMER_PROF, self.seconds)
                    return
            except Exception:
                pass
            raise UpdateTimeout(f"no result within {self.seconds} s")

        # CPU time of this process (ITIMER_PROF), not wall time: the limit must not depend
        # on how loaded the machine is (a wall-clock limit produced spurious timeouts, and
        # thereby irreproducible "violations", when 40+ processes shared 16 cores)
        self._old = signal.signal(signal.SIGPROF, handler)
        # periodic after the first expiry: scipy's LSODA can swallow an exception raised
        # inside its callback and keep iterating (observed with a mutant), so one raise is
        # not always enough; the worker-level CPU watchdog of mc/pool.py is the last resort
        signal.setitimer(signal.ITIMER_PROF, self.seconds, 1.0)

    def __exit__(self, *exc):
        import signal

        signal.setitimer(signal.ITIMER_PROF, 0)
        signal.signal(signal.SIGPROF, self._old)
        return False


def _detach(F_in, F_out):
    """The caller keeps a private copy of the returned gradient and then overwrites both the
    array it was handed back and the array it passed in: an implementation that keeps a
    reference to either (for a later call) works from garbage afterwards."""
    out = np.array(F_out, dtype=float)
    for a in (F_out, F_in):
        try:
            if isinstance(a, np.ndarray) and a.flags.writeable and a.dtype.kind == "f":
                a[...] = np.nan
        except Exception:
            pass
    return out


def update(m, params, F, fl, t0, t1, **kw):
    F = np.array(F)  # private copy of the caller's gradient (keeps its dtype), overwritten afterwards
    with time_limit():
        return _detach(F, m.update_orientations(params, F, fl.L, (t0, t1, fl.x), **kw))


def warm():
    k = dict(fab="olA", reg="disl", tex="random", vol="uniform", ng=3, prm="default")
    for reg in REGIMES:
        k["reg"] = reg
        m = build_mineral(k)
        try:
            update(m, params_for(0, "default"), np.eye(3), flow("gen"), 0.0, 0.05)
        except Exception:
            pass
    k = dict(fab="enAB", reg="disl", tex="random", vol="uniform", ng=3, prm="default")
    m = build_mineral(k)
    try:
        update(m, params_for(1, "default"), np.eye(3), flow("gen"), 0.0, 0.05)
    except Exception:
        pass
    # every numeric type signature the parameter letters can produce (M* is an int in
    # DefaultParams and a float in the overrides), so that no worker has to JIT-compile
    for prm in ("M200", "M0chi0", "lam0", "p1", "n2"):
        for reg in ("disl", "yield"):
            k = dict(fab="olA", reg=reg, tex="random", vol="geometric", ng=3, prm=prm)
            try:
                update(build_mineral(k), params_for(0, prm), np.eye(3), flow("gen"), 0.0, 0.05)
            except Exception:
                pass
    with Monitor():
        k = dict(fab="olA", reg="disl", tex="random", vol="geometric", ng=3, prm="M200")
        try:
            update(build_mineral(k), params_for(0, "M200"), np.eye(3), flow("pos"), 0.0, 0.05)
        except Exception:
            pass



# ------------------------------------------------------------------ seams (observers only)


class Monitor:
    """Observes the module-attribute seams `pydrex.utils.apply_gbs` and
    `pydrex.core.derivatives` as called from pydrex.minerals during one update.  Observer
    only: if a refactor removes a seam, `seen_*` stays False and callers fall back to
    black-box oracles (a missing seam is never a violation)."""

    def __init__(self):
        self.gbs = []  # (fractions_in copy, threshold, n_grains, prev_hash, orientations_in copy)
        self.der = []  # (max|eig D|, volume_fraction, regime)
        self.seen_gbs = self.seen_der = False
        self.act_min = None

    def __enter__(self):
        import pydrex.core as core
        import pydrex.utils as utils

        self._core, self._utils = core, utils
        self._og, self._od = utils.apply_gbs, core.derivatives
        mon = self

        def gbs(orientations, fractions, gbs_threshold, orientations_prev, n_grains):
            mon.seen_gbs = True
            mon.gbs.append(
                (np.array(fractions, copy=True), float(gbs_threshold), int(n_grains), digest(np.asarray(orientations_prev)), np.array(orientations, copy=True))
            )
            return mon._og(orientations, fractions, gbs_threshold, orientations_prev, n_grains)

        def der(*a, **k):
            mon.seen_der = True
            try:
                D = k.get("strain_rate", a[6] if len(a) > 6 else None)
                vf = k.get("volume_fraction", a[13] if len(a) > 13 else None)
                rg = k.get("regime", a[0] if a else None)
                mon.der.append((float(np.abs(np.linalg.eigvalsh(np.asarray(D, float))).max()) if D is not None and np.isfinite(D).all() else np.nan, None if vf is None else float(vf), None if rg is None else int(rg)))
                # smallest slip activity max_s|I_s/tau_s| seen per grain during the update
                # (C02's exclusion zone; guards on exact zeros are discontinuous there)
                ph = k.get("phase", a[1] if len(a) > 1 else None)
                fb = k.get("fabric", a[2] if len(a) > 2 else None)
                A = k.get("orientations", a[4] if len(a) > 4 else None)
                if rg in (4, 6) and A is not None and np.isfinite(D).all() and np.isfinite(A).all():
                    from ref import drex_ref

                    # the exclusion zone is stated for the normalised gradient: normalise by
                    # D's own largest |eigenvalue| (NOT trusting the caller to have done so,
                    # otherwise a dimensional D would gate every grain and blind the twins)
                    Dn = np.asarray(D, float)
                    # ... and, where the velocity gradient is handed over as well, take the
                    # strain rate from IT (a strain rate truncated to zero by an integer
                    # buffer would gate every grain: seed C05h)
                    Lg = k.get("velocity_gradient", a[7] if len(a) > 7 else None)
                    if Lg is not None and np.isfinite(np.asarray(Lg, float)).all() and np.abs(np.asarray(Lg, float)).max() > 0:
                        Lg = np.asarray(Lg, float)
                        Dn = (Lg + Lg.T) / 2
                    sm = np.abs(np.linalg.eigvalsh((Dn + Dn.T) / 2)).max()
                    act = drex_ref.activity(int(ph), int(fb), np.asarray(A, float), Dn / sm if sm > 0 else Dn)
                    mon.act_min = act if mon.act_min is None else np.minimum(mon.act_min, act)
            except Exception:
                pass
            return mon._od(*a, **k)

        utils.apply_gbs = gbs
        core.derivatives = der
        return self

    def __exit__(self, *exc):
        self._utils.apply_gbs = self._og
        self._core.derivatives = self._od
        return False

    def grain_status(self, n, margin=2e-3):
        """Per grain: clean = never masked or always masked during this update, and never
        within `margin` (relative to the threshold, absolute floor 1e-6) of it."""
        if not self.seen_gbs or not self.gbs:
            return None
        fr = np.array([g[0] for g in self.gbs])
        thr = np.array([g[1] / g[2] for g in self.gbs])[:, None]
        masked = fr < thr
        near = np.abs(fr - thr) <= np.maximum(margin * thr, 1e-6)
        never, always = ~masked.any(axis=0), masked.all(axis=0)
        clean = (never | always) & ~near.any(axis=0)
        if self.act_min is not None and len(self.act_min) == n:
            clean &= self.act_min >= 1e-9
        return {"clean": clean, "always": always, "never": never}


def update_mon(m, params, F, fl, t0, t1, **kw):
    F = np.array(F)
    with Monitor() as mon, time_limit():
        F1 = m.update_orientations(params, F, fl.L, (t0, t1, fl.x), **kw)
    return _detach(F, F1), mon


# ------------------------------------------------------------------ generic BFS


class State:
    __slots__ = ("m", "F", "t", "strain", "N", "hist", "twin", "aux")

    def __init__(self, m, F, t=0.0):
        self.m, self.F, self.t = m, F, t
        self.strain, self.N, self.hist, self.twin, self.aux = 0.0, 0, [], None, {}

    def clone(self):
        s = State(copy.deepcopy(self.m), self.F.copy(), self.t)
        s.strain, s.N, s.hist = self.strain, self.N, list(self.hist)
        s.twin = copy.deepcopy(self.twin)
        s.aux = copy.deepcopy(self.aux)
        return s


def snapshot_hashes(m):
    return [digest(o, f) for o, f in zip(m.orientations, m.fractions)]


def canon(st):
    ms = st.m if isinstance(st.m, list) else [st.m]
    return digest(*[np.round(x.orientations[-1], 9) for x in ms], *[np.round(x.fractions[-1], 9) for x in ms], np.round(st.F, 9), round(st.t, 9))


class StopExploration(Exception):
    """Raised by a step function to end the exploration of the current case early (used
    after an update hit the time limit: every further update would hit it too)."""


CASE_CPU_BUDGET_S = 60.0  # a case of the unchanged tree needs 0.1 .. 20 s of CPU
LAST = {"budget_stop": False}


def bfs(root, letters, depth, step):
    """Breadth-first exploration.  step(parent_state, letter) -> child state or None
    (None = the transition ended in a rejected update; not expanded further).
    Returns (n_states, n_transitions).  A case that has used CASE_CPU_BUDGET_S of CPU time
    is cut short (LAST['budget_stop']; callers report it in the notes): a change that makes
    every update hundreds of times slower must not turn a 2-minute check into hours."""
    import time as _time

    t0 = _time.process_time()
    LAST["budget_stop"] = False
    seen = {canon(root)}
    frontier = [root]
    nstates, ntrans = 1, 0
    for _ in range(depth):
        nxt = []
        for st in frontier:
            for lt in letters:
                if _time.process_time() - t0 > CASE_CPU_BUDGET_S:
                    LAST["budget_stop"] = True
                    return nstates, ntrans
                try:
                    child = step(st, lt)
                except StopExploration:
                    return nstates, ntrans + 1
                ntrans += 1
                if child is None:
                    continue
                k = canon(child)
                if k not in seen:
                    seen.add(k)
                    nstates += 1
                    nxt.append(child)
        frontier = nxt
    return nstates, ntrans


# ------------------------------------------------------------------ reference for F


def ref_F(fl, F0, t0, t1):
    if fl.const is not None:
        return expm(fl.const * (t1 - t0)) @ F0
    if t1 == t0:
        return np.array(F0, float)
    sol = solve_ivp(
        lambda t, y: (fl.L(t, fl.x(t)) @ y.reshape(3, 3)).ravel(),
        (t0, t1),
        F0.ravel(),
        method="DOP853",
        rtol=1e-12,
        atol=1e-14,
    )
    return sol.y[:, -1].reshape(3, 3)


def ode_bound(N, strain):
    return 5e-3 + 1e-3 * (N + 2 * strain)


# ------------------------------------------------------------------ texture validity (C01)


def check_snapshot(A, f, n, N, strain):
    """Return list of (clause, detail) for one stored snapshot."""
    out = []
    A = np.asarray(A)
    f = np.asarray(f)
    if A.shape != (n, 3, 3) or f.shape != (n,):
        return [("shape", {"A": list(A.shape), "f": list(f.shape)})]
    if not np.isfinite(f).all() or not np.isfinite(A).all():
        return [("finite", {"nan_f": int((~np.isfinite(f)).sum()), "nan_A": int((~np.isfinite(A)).sum())})]
    if (f < 0).any():
        out.append(("fractions_nonneg", {"min": float(f.min())}))
    if abs(f.sum() - 1) > 1e-12:
        out.append(("fractions_sum", {"sum": float(f.sum())}))
    if np.abs(A).max() > 1.0:
        out.append(("entries_range", {"max": float(np.abs(A).max())}))
    dev = np.abs(np.einsum("gij,gkj->gik", A, A) - np.eye(3)).max()
    if dev > ode_bound(N, strain):
        out.append(("orthonormal", {"dev": float(dev), "bound": float(ode_bound(N, strain))}))
    det = np.linalg.det(A)
    if (det <= 0).any():
        out.append(("right_handed", {"min_det": float(det.min())}))
    return out


# ------------------------------------------------------------------ lock-step twins


def V(res, key, clause, detail, **kw):
    k = dict(key)
    k.update(kw)
    res["viol"].append({"clause": clause, "key": k, "detail": detail})


def twin_explore(res, key, prm_a, prm_b, root, letters, depth, flow_a, flow_b, time_b, compare, solver_kw=None):
    """BFS where every state carries a primary mineral (st.m, st.F) and a twin
    (st.twin = {'m':..., 'F':...}).  flow_a(name) / flow_b(name) give the letter's flow for
    each member, time_b maps primary times to twin times.

    compare(parent, child, hist, clean) is called after every transition that both members
    completed; `clean` is a boolean per grain: the grain-boundary-sliding rule is a
    discontinuous function of the volume fraction (a grain below chi/n is reset to its
    start-of-update orientation after every solver step), so two runs that agree within
    solver tolerance may legitimately differ by O(1) in the orientation of a grain that
    touches the threshold during the update.  Such grains are not compared, and a path on
    which any grain is unclean is not expanded further (its future is no longer
    comparable); both are counted in the evidence notes.  If the apply_gbs seam is not
    observable, only chi = 0 roots are compared (reported as 'seam not observed')."""
    obs = []
    n = root.m.n_grains
    chi0 = prm_a.get("gbs_threshold", 0.3) == 0.0

    def step(st, lt):
        child = st.clone()
        t1 = st.t + lt[1]
        fa, fb = flow_a(lt[0]), flow_b(lt[0])
        if not fb.name.startswith("st_"):  # (the stored-array letters are an aliasing answer of their own)
            fb = buffered(fb)
        hist = "/".join(st.hist + [letter_name(lt)])
        res["n"] += 2
        ea = eb = None
        try:
            Fa, ma = update_mon(child.m, prm_a, child.F, fa, st.t, t1, **(solver_kw or {}))
        except Exception as e:  # noqa
            ea = e
        try:
            Fb, mb = update_mon(child.twin["m"], prm_b, child.twin["F"], fb, time_b(st.t), time_b(t1), **(solver_kw or {}))
        except Exception as e:  # noqa
            eb = e
        if ea is not None or eb is not None:
            res["clauses"]["twin_both_complete"] = res["clauses"].get("twin_both_complete", 0) + 1
            if (ea is None) != (eb is None):
                V(res, key, "twin_both_complete", {"primary": type(ea).__name__ if ea else "ok", "twin": type(eb).__name__ if eb else "ok"}, hist=hist)
            res["notes"]["rejected_updates"] = res["notes"].get("rejected_updates", 0) + 1
            if isinstance(ea, UpdateTimeout) or isinstance(eb, UpdateTimeout):
                res["notes"]["cases_stopped_after_timeout"] = res["notes"].get("cases_stopped_after_timeout", 0) + 1
                raise StopExploration()
            return None
        child.F, child.twin["F"] = np.asarray(Fa), np.asarray(Fb)
        child.t = t1
        child.N += 1
        child.strain += fa.strain(st.t, t1)
        child.hist.append(letter_name(lt))
        child.aux["mon"] = (ma, mb)
        sa, sb = ma.grain_status(n), mb.grain_status(n)
        if sa is None or sb is None:
            if not (ma.seen_gbs and mb.seen_gbs):
                res["notes"]["gbs_seam_not_observed"] = res["notes"].get("gbs_seam_not_observed", 0) + 1
            clean = np.full(n, bool(chi0))
        else:
            clean = sa["clean"] & sb["clean"] & (sa["always"] == sb["always"])
        res["notes"]["grains_compared"] = res["notes"].get("grains_compared", 0) + int(clean.sum())
        res["notes"]["grains_gated_at_gbs_threshold"] = res["notes"].get("grains_gated_at_gbs_threshold", 0) + int((~clean).sum())
        compare(st, child, hist, clean)
        child.aux.pop("mon", None)
        obs.append(digest(child.m.orientations[-1], child.m.fractions[-1], child.twin["m"].orientations[-1]))
        if not clean.all():
            res["notes"]["paths_cut_at_gbs_threshold"] = res["notes"].get("paths_cut_at_gbs_threshold", 0) + 1
            return None
        return child

    ns, nt = bfs(root, letters, depth, step)
    res["states"] += ns
    res["trans"] += nt
    if LAST["budget_stop"]:
        res["notes"]["cases_cut_at_cpu_budget"] = res["notes"].get("cases_cut_at_cpu_budget", 0) + 1
    return obs


# ------------------------------------------------------------------ C04 (textures)

C04_PRMS = ["default", "M0", "M200", "chi0", "lam0", "p1", "n2"]


def c04_twins(tier):
    cube = list(alph.CUBE)
    q = [cube[5], "g0", "gs0"] if tier == "quick" else [cube[5], cube[11], cube[19], "g0", "g1", "gs0"]
    return ["Q:" + x for x in q] + (["S:mod4"] if tier == "quick" else ["S:mod4", "S:all2b", "S:alt"])


def gen_cases_c04(tier):
    keys = []
    for k in root_keys(tier, ["disl", "yield"], dev=1, prms=C04_PRMS):
        for j, tw in enumerate(c04_twins(tier)):
            # thorough: depth 3 for one cube, two generic frames and one lattice pattern,
            # depth 2 for the remaining twins (keeps the tier at ~20-30 minutes)
            deep = tier != "quick" and tw in ("Q:" + list(alph.CUBE)[5], "Q:g0", "Q:gs0", "S:mod4")
            kk = dict(k, twin=tw, depth=3 if deep else 2)
            keys.append(kk)
    # The same exploration at tight solver tolerances (rtol 1e-9, atol 1e-11 through the
    # public **kwargs of update_orientations) from the default roots: both members then
    # converge to the true solution, so frame indifference of the MODEL is compared sharply,
    # including the volume fractions.  With the default tolerances a rotated frame takes
    # different solver steps (atol is per component) and the fast boundary-migration
    # dynamics (M* = 125) amplify tolerance-level differences of the fractions beyond any
    # fixed bound; fractions are therefore not compared for frame twins at default tolerance.
    for k in root_keys(tier, ["disl", "yield"], dev=0, prms=C04_PRMS):
        for tw in c04_twins(tier):
            if tw.startswith("Q:"):
                keys.append(dict(k, twin=tw, depth=2, tol="tight"))
                # time partitions: a span of strain 1 in 1, 2 and 5 updates, per flow
                keys.append(dict(k, twin=tw, depth=0, tol="tight", chain=1))
            else:
                keys.append(dict(k, twin=tw, depth=0, chain=1))
    return keys


def lattice_assign(pattern, n):
    if pattern.startswith("all"):
        return [{"a": 1, "b": 2, "c": 3}[pattern[-1]]] * n
    if pattern == "alt":
        return [i % 2 for i in range(n)]
    return [i % 4 for i in range(n)]


def run_case_c04(key):
    res = empty_result()
    ph, fb = alph.FABRICS[key["fab"]]
    n = key["ng"]
    prm = params_for(ph, key["prm"])
    m = build_mineral(key)
    A0, f0_ = m.orientations[0], m.fractions[0]
    kind, name = key["twin"].split(":")
    S = list(alph.TWOFOLDS.values())
    if kind == "Q":
        Q = alph.FRAME[name]
        mt = build_mineral(key, A=np.einsum("gij,kj->gik", A0, Q), f=f0_)
        F0 = f0("generic")
        root = State(m, F0)
        root.twin = {"m": mt, "F": Q @ F0 @ Q.T}
        fb_ = lambda nm: rotated_flow(flow(nm), Q)  # noqa
        mapA = lambda A: np.einsum("gij,kj->gik", A, Q)  # noqa
        mapF = lambda F: Q @ F @ Q.T  # noqa
    else:
        assign = lattice_assign(name, n)
        mt = build_mineral(key, A=np.array([S[s] @ A0[i] for i, s in enumerate(assign)]), f=f0_)
        F0 = f0("generic")
        root = State(m, F0)
        root.twin = {"m": mt, "F": F0.copy()}
        fb_ = flow
        mapA = lambda A: np.array([S[s] @ A[i] for i, s in enumerate(assign)])  # noqa
        mapF = lambda F: F  # noqa
    cl = res["clauses"]
    tight = key.get("tol") == "tight"
    solver_kw = {"rtol": 1e-9, "atol": 1e-11} if tight else None

    def compare(parent, child, hist, clean):
        bound = ode_bound(child.N, child.strain)
        boundF = 2 * bound  # each member is within the bound of the true F (C06)
        if tight:
            bound = boundF = 1e-5 * child.N
        elif kind == "Q":
            # default tolerances, rotated frame: the solver takes different steps (its
            # absolute tolerance is per component), so the two members are two different
            # approximations; observed orientation differences reach 5e-3 on correct code.
            # This pass only looks for gross frame dependence (10 x the stated bound); the
            # sharp comparison is the tight-tolerance pass.
            bound = 10 * bound
        a, b = child.m, child.twin["m"]
        dA = df = 0.0
        if clean.any():
            cl["texture_equivariant"] = cl.get("texture_equivariant", 0) + int(clean.sum())
            dA = float(np.abs(b.orientations[-1] - mapA(a.orientations[-1]))[clean].max())
            if not dA <= bound:
                V(res, key, "texture_equivariant", {"dev": dA, "bound": bound}, hist=hist)
        if clean.all() and kind == "Q" and not tight:
            res["notes"]["fraction_compare_skipped_default_tolerance"] = res["notes"].get("fraction_compare_skipped_default_tolerance", 0) + 1
        elif clean.all():
            cl["fractions_invariant"] = cl.get("fractions_invariant", 0) + 1
            df = float(np.abs(b.fractions[-1] - a.fractions[-1]).max())
            if not df <= bound:
                V(res, key, "fractions_invariant", {"dev": df, "bound": bound}, hist=hist)
        cl["F_equivariant"] = cl.get("F_equivariant", 0) + 1
        dF = float(np.abs(child.twin["F"] - mapF(child.F)).max() / max(1.0, np.abs(child.F).max()))
        if not dF <= boundF:
            V(res, key, "F_equivariant", {"dev": dF, "bound": boundF}, hist=hist)
        sfx = "_tight" if tight else ""
        for nm, v in (("max_texture_dev" + sfx, dA), ("max_fraction_dev" + sfx, df), ("max_F_dev" + sfx, dF)):
            if np.isfinite(v):
                res["notes"][nm] = max(res["notes"].get(nm, 0.0), v)
        if not np.array_equal(a.orientations[-1], a.orientations[-2]):
            res["nontrivial"].append(canon(child))

    if key.get("chain"):
        obs = []
        for fl in ("ss_xz", "gen", "time", "pos"):
            for kparts in (1, 2, 5):
                obs += twin_explore(res, key, prm, prm, root.clone(), [(fl, 1.0 / kparts)], kparts, flow, fb_, lambda t: t, compare, solver_kw=solver_kw)
    else:
        obs = twin_explore(res, key, prm, prm, root, STEP_LETTERS, key["depth"], flow, fb_, lambda t: t, compare, solver_kw=solver_kw)
    res["outcomes"] += obs[:40]
    res["obs"] = digest(*obs)
    res["sample"] = {"case": key, "states": res["states"], "transitions": res["trans"]}
    return res
