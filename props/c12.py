"""C12 - elastic symmetry decomposition is correct and frame-independent (engine A:
exhaustive product tensors x frame rotations; closed-form invariants + metamorphic
co-rotation, everything recomputed on the full 3x3x3x3 tensor with einsum)."""

import itertools

import numpy as np

from mc import alph
from mc.runner import digest, empty_result
from ref import elastic_ref as E

PID = "C12"
RULE = (
    "full cross product tensors x frame rotations Q; one case = one tensor decomposed in every "
    "frame (one elasticity_components call per (tensor, Q)). Tensors: the two built-in "
    "single-crystal matrices (x unit scale 1, 1e9); 3 whole-number orthorhombic matrices turned 45 degrees about c (still whole numbers); every positive-definite point of a 2-letter "
    "(thorough: some 3-letter) grid over the 9 orthorhombic entries; Voigt averages (own einsum) "
    "of 6 texture kinds x grain counts x {olivine, enstatite, 70/30 mix} x {uniform, geometric} "
    "volumes. Q: identity, 23 other cube rotations, generic + seeded rotations, two near-identity "
    "rotations (thorough: all cube x generic products). The tensor in frame Q is built by the "
    "check's own einsum rotation; a whole-number matrix (grid tensors in the cube frames) is also "
    "handed over as an int64 and as a float32 array and must give the same report. A (tensor, Q) point is non-trivial when Q is not the identity, "
    "the tensor is > 0.1 % anisotropic and the frame-independence clauses were actually "
    "evaluated (not gated); distinct = distinct (case key, Q)."
)
ASSUMPTIONS = [
    "numpy einsum / eigh are trusted; the reference (ref/elastic_ref.py) never calls pydrex.tensors",
    "elasticity_components is called through a copy whose np.empty yields NaN-filled arrays, so "
    "that result elements the implementation never assigns are observed as NaN instead of stale "
    "heap memory (no effect on an implementation that assigns every element)",
    "norm = Frobenius norm of the full 3x3x3x3 tensor (equal to the 21-vector norm of Browaeys & "
    "Chevrot 2004 by construction of its weights)",
    "'orthorhombic with distinct principal axes' / 'well conditioned' = smallest eigenvalue gap of "
    "both contractions d_ij = C_ijkk and v_ij = C_ikjk exceeds 1e-3 of their Frobenius norm; "
    "tensors below that are only checked for K, G, percent anisotropy, range and unit axis",
    "frame-independence is additionally skipped where the pairing of d and v eigenvectors is "
    "ambiguous (angle margin < 1e-3 rad) or two candidate axes are equally good hexagonal axes "
    "(distance tie < 1e-9 ||C||): the choice is then legitimately discontinuous",
    "for orthorhombic inputs the docstring meaning of the keys is used: hexagonal_axis = symmetry "
    "axis of the closest transversely isotropic approximation among the principal axes (asserted "
    "as: no principal axis is strictly closer), percent_hexagonal = 100 ||H_a C - C_iso|| / ||C|| "
    "with H_a the orthogonal projection onto tensors transversely isotropic about the reported axis",
]
BOUND = {
    "quick": "2^9 orthorhombic grid, textures n <= 20, 29 frames (24 cube + 3 generic/seeded "
    "GEN letters of the tier + 2 near-identity)",
    "thorough": "orthorhombic grid with a third letter on 4 entries (2^5 * 3^4), textures n <= 100, "
    "FRAME u NEAR u (CUBE x GEN) frames",
}

GAP = 1e-3  # stated conditioning gate
PAIR_MARGIN = 1e-3
TIE = 1e-9

PCT = [
    "percent_anisotropy",
    "percent_hexagonal",
    "percent_tetragonal",
    "percent_orthorhombic",
    "percent_monoclinic",
    "percent_triclinic",
]

# orthorhombic grid letters (GPa): default first; third letter only in the thorough tier
GRID = {
    "c11": [320.0, 190.0, 255.0],
    "c22": [200.0, 260.0, 170.0],
    "c33": [235.0, 150.0, 290.0],
    "c12": [70.0, 45.0],
    "c13": [71.0, 96.0],
    "c23": [75.0, 52.0],
    "c44": [64.0, 91.0, 30.0],
    "c55": [78.0, 49.0],
    "c66": [79.0, 58.0],
}
TEXTURES = ["single", "aligned", "cluster", "girdle", "random", "random2"]
MINERALS = ["ol", "en", "mix"]
VOLS = ["uniform", "geometric"]
SCALES = {"1": 1.0, "1e9": 1e9}

_EC = None
_STIFF = None


def _grid_letters(tier):
    return {k: (v if tier == "thorough" else v[:2]) for k, v in GRID.items()}


def _grid_points(tier):
    letters = _grid_letters(tier)
    names = list(letters)
    pts = []
    for combo in itertools.product(*[range(len(letters[k])) for k in names]):
        m = E.ortho_matrix(*[letters[k][i] for k, i in zip(names, combo)])
        if np.linalg.eigvalsh(m).min() <= 0:
            continue
        pts.append("o" + "".join(str(i) for i in combo))
    # simplest first: by number of non-default letters
    pts.sort(key=lambda s: (sum(ch != "0" for ch in s[1:]), s))
    return pts


def _ns(tier):
    return [1, 2, 3, 5, 20] + ([100] if tier == "thorough" else [])


def frames():
    """Ordered dict name -> Q for the configured tier (identity first)."""
    fr = {}
    for k, m in alph.FRAME.items():
        fr[k] = m
    for k, m in alph.NEAR.items():
        fr[k] = m
    # about ONE lab axis by an angle that is not a multiple of 90 degrees (an orthorhombic
    # tensor then looks monoclinic about that axis; seed C12i)
    for ax_, ang in (("z", 25.0), ("x", 40.0), ("y", 65.0), ("z", 45.0)):
        fr[f"lab_{ax_}{ang:g}"] = alph.rot_axis({"x": [1, 0, 0], "y": [0, 1, 0], "z": [0, 0, 1]}[ax_], np.radians(ang))
    if alph.TIER == "thorough":
        for (cn, c), (gn, g) in itertools.product(list(alph.CUBE.items())[1:], alph.GEN.items()):
            fr[f"{cn}*{gn}"] = c @ g
    return fr


def ALPHABETS():
    tier = alph.TIER
    return {
        "builtin_tensors": 2,
        "unit_scales": len(SCALES),
        "ortho_grid_points_pd": len(_grid_points(tier)),
        "ortho_grid_letters": sum(len(v) for v in _grid_letters(tier).values()),
        "texture_kinds": len(TEXTURES),
        "grain_counts": len(_ns(tier)),
        "minerals": len(MINERALS),
        "volume_vectors": len(VOLS),
        "frames": len(frames()),
        "cube": len(alph.CUBE),
        "generic": len(alph.GEN),
        "near_identity": len(alph.NEAR),
    }


def _poisoned(fn):
    """Copy of a plain-Python function in whose globals `np.empty` returns NaN-filled arrays.

    elasticity_components allocates its result arrays with np.empty and fills them inside a
    conditional; if the condition never holds the caller gets uninitialised heap memory
    (usually the previous call's result), which would make a *wrong* implementation look
    nondeterministic to the runner.  With the poisoned allocator an unassigned result is NaN,
    deterministically, and is reported by the 'finite' clause.  A correct implementation
    (every element assigned) is unaffected; jitted callees keep their own globals."""
    import types

    if not isinstance(fn, types.FunctionType) or fn.__globals__.get("np") is not np:
        return fn

    class _NP:
        def __getattr__(self, name):
            return getattr(np, name)

        @staticmethod
        def empty(shape, *a, **k):
            try:
                return np.full(shape, np.nan, *a, **k)
            except (TypeError, ValueError):  # e.g. an integer dtype: leave it to numpy
                return np.empty(shape, *a, **k)

    g = dict(fn.__globals__)
    g["np"] = _NP()
    f2 = types.FunctionType(fn.__code__, g, fn.__name__, fn.__defaults__, fn.__closure__)
    f2.__kwdefaults__ = fn.__kwdefaults__
    return f2


def warmup():
    global _EC, _STIFF
    from pydrex import diagnostics, minerals

    _EC = _poisoned(diagnostics.elasticity_components)
    s = minerals.StiffnessTensors()
    _STIFF = {"ol": np.array(s.olivine, float), "en": np.array(s.enstatite, float)}
    try:  # compile the numba helpers once, before the fork
        _EC(np.array([_STIFF["ol"]]))
    except Exception:
        pass  # an implementation exception is a verdict of run_case ('noraise'), not of warmup


def gen_cases(tier, seed):
    keys = []
    for t in ("ol", "en"):
        for sc in SCALES:
            keys.append({"cls": "builtin", "t": t, "scale": sc})
    for p in _grid_points(tier):
        keys.append({"cls": "ortho", "t": p})
    for i in range(len(INT45)):
        keys.append({"cls": "int45", "t": i})
    for tex in TEXTURES:
        for n in _ns(tier):
            for mn in MINERALS:
                for vol in VOLS:
                    if n == 1 and vol != "uniform":
                        continue  # same tensor
                    keys.append({"cls": "tex", "tex": tex, "n": n, "min": mn, "vol": vol})
    return keys


# orthorhombic matrices with entries that are multiples of 4 (c11 c22 c33 c12 c13 c23 c44 c55 c66):
# turned by exactly 45 degrees about c they are still whole-number matrices, but no longer in
# their symmetry frame (seed C12f)
INT45 = [(320, 200, 236, 68, 72, 76, 64, 80, 76), (192, 260, 152, 44, 96, 52, 92, 48, 60), (400, 120, 280, 40, 60, 84, 28, 100, 56)]


def build_tensor(key):
    """3x3x3x3 tensor of the case in the unrotated frame."""
    if _STIFF is None:
        warmup()
    if key["cls"] == "int45":
        T = E.to_tensor(E.ortho_matrix(*[float(v) for v in INT45[key["t"]]]))
        c = np.sqrt(0.5)
        Q = np.array([[c, -c, 0.0], [c, c, 0.0], [0.0, 0.0, 1.0]])
        M = E.to_voigt(E.rotate4(T, Q))
        if np.abs(M - np.rint(M)).max() > 1e-9:
            raise RuntimeError("int45 letter is not whole-number valued")
        return E.to_tensor(np.rint(M))
    if key["cls"] == "builtin":
        return E.to_tensor(_STIFF[key["t"]] * SCALES[key["scale"]])
    if key["cls"] == "ortho":
        letters = _grid_letters(alph.TIER)
        vals = [letters[k][int(ch)] for k, ch in zip(letters, key["t"][1:])]
        return E.to_tensor(E.ortho_matrix(*vals))
    a = alph.texture(key["tex"], key["n"])
    f = alph.volumes(key["vol"], key["n"])
    if key["min"] == "mix":
        return 0.7 * E.voigt_average(_STIFF["ol"], a, f) + 0.3 * E.voigt_average(_STIFF["en"], a, f)
    return E.voigt_average(_STIFF[key["min"]], a, f)


def run_case(key):
    res = empty_result()
    cl = res["clauses"]
    viol = res["viol"]
    seen = set()

    def count(c, k=1):
        cl[c] = cl.get(c, 0) + k

    def V(clause, q, detail, **extra):
        # one violation per (clause, field) and case: the first frame in enumeration order
        tag = (clause, extra.get("field"))
        if tag in seen:
            return
        seen.add(tag)
        k = dict(key)
        k["Q"] = q
        k.update(extra)
        viol.append({"clause": clause, "key": k, "detail": detail})

    T0 = build_tensor(key)
    cond = E.conditioning(T0)
    nrm0 = E.fnorm(T0)
    gap = min(cond["gap_d"], cond["gap_v"])
    ortho = key["cls"] in ("builtin", "ortho")
    separated = gap > GAP
    unambiguous = separated and cond["pair_margin"] > PAIR_MARGIN and cond["tie"] > TIE
    tol = 1e-9 + 1e-11 / max(gap, GAP)  # percent scale; eigenvector error ~ eps / gap
    tol_ax = 1e-9 + 1e-12 / max(gap, GAP)
    res["notes"]["gated_gap"] = int(not separated)
    res["notes"]["gated_pairing_or_tie"] = int(separated and not unambiguous)
    res["notes"]["max_misalign_d_v_rad"] = cond["misalign"]

    fr = frames()
    obs = []
    base = None
    mx = {"max_dev_moduli_rel": 0.0, "max_dev_aniso": 0.0, "max_dev_frame_percent": 0.0,
          "max_dev_frame_axis": 0.0, "max_ortho_mono_tric": 0.0, "max_dev_ortho_hex_part": 0.0}

    def track(name, x):
        if np.isfinite(x):
            mx[name] = max(mx[name], float(x))
    singles = []  # (matrix, single-call output vector) of the first few frames
    held = None
    for qn, Q in fr.items():
        T = T0 if qn == "cube00" else E.rotate4(T0, Q)
        M = E.to_voigt(T)
        res["n"] += 1
        res["trans"] += 1
        count("noraise")
        try:
            out = _EC(np.array([M]))
            o = {k: float(out[k][0]) for k in ["bulk_modulus", "shear_modulus"] + PCT}
            ax = np.array(out["hexagonal_axis"][0], float)
            if held is None:
                held = (out, dict(o), ax.copy())  # the caller keeps its first result (no copy)
            if len(singles) < 4:
                singles.append((M, np.array([o[k] for k in ["bulk_modulus", "shear_modulus"] + PCT] + list(ax))))
        except Exception as e:  # "for any stiffness matrix the reported ..." : must report
            V("noraise", qn, {"exception": type(e).__name__, "msg": str(e)[:200]}, exc=type(e).__name__)
            continue
        obs += [np.array([o[k] for k in sorted(o)]), ax]
        vals = np.array([o[k] for k in sorted(o)])
        count("finite")
        if not (np.isfinite(vals).all() and np.isfinite(ax).all()):
            V("finite", qn, {"out": o, "axis": ax})
            continue
        res["outcomes"].append(digest(np.round([o[k] for k in PCT], 6)))

        # ---- the same tensor in upper-triangular storage (the function's first step mirrors the
        # upper triangle): same report (seed C12h)
        if len(singles) <= 4:
            count("upper_storage_irrelevant")
            res["n"] += 1
            try:
                out3 = _EC(np.array([np.triu(M)]))
                o3 = {k: float(out3[k][0]) for k in ["bulk_modulus", "shear_modulus"] + PCT}
                ax3 = np.array(out3["hexagonal_axis"][0], float)
                dv3 = max(abs(o3[k] - o[k]) / (np.abs(M).max() if "modulus" in k else 1.0) for k in o)
                da3 = min(np.abs(ax3 - ax).max(), np.abs(ax3 + ax).max())
                if not (dv3 <= 1e-9 and (da3 <= 1e-9 or not unambiguous)):
                    V("upper_storage_irrelevant", qn, {"got": o3, "full_storage": o}, field="upper")
            except Exception as e:
                V("upper_storage_irrelevant", qn, {"exception": type(e).__name__, "msg": str(e)[:200]}, field="upper", exc=type(e).__name__)

        # ---- a whole-number matrix handed over as an int64 / float32 array (legal ndarrays)
        # is the same stiffness matrix: same report
        if np.array_equal(M, np.rint(M)) and np.abs(M).max() < 2**20:
            for tag, dt in (("int64", np.int64), ("float32", np.float32)):
                count("dtype_irrelevant")
                res["n"] += 1
                try:
                    out2 = _EC(np.array([M]).astype(dt))
                    o2 = {k: float(out2[k][0]) for k in ["bulk_modulus", "shear_modulus"] + PCT}
                    ax2 = np.array(out2["hexagonal_axis"][0], float)
                    dv = max(abs(o2[k] - o[k]) / (np.abs(M).max() if "modulus" in k else 1.0) for k in o)
                    da = min(np.abs(ax2 - ax).max(), np.abs(ax2 + ax).max())
                    if not (dv <= 1e-9 and da <= 1e-9):
                        V("dtype_irrelevant", qn, {"dtype": tag, "got": o2, "float64": o, "axis": ax2, "axis_float64": ax}, field=tag)
                except Exception as e:
                    V("dtype_irrelevant", qn, {"dtype": tag, "exception": type(e).__name__, "msg": str(e)[:200]}, field=tag, exc=type(e).__name__)

        # ---- closed form, in this frame, from the full tensor
        K, G = E.moduli(T)
        scale = np.abs(M).max()
        count("moduli")
        track("max_dev_moduli_rel", max(abs(o["bulk_modulus"] - K), abs(o["shear_modulus"] - G)) / scale)
        if abs(o["bulk_modulus"] - K) > 1e-11 * scale:
            V("moduli", qn, {"got": o["bulk_modulus"], "want": K}, field="bulk_modulus")
        if abs(o["shear_modulus"] - G) > 1e-11 * scale:
            V("moduli", qn, {"got": o["shear_modulus"], "want": G}, field="shear_modulus")
        count("aniso")
        want = E.percent_anisotropy(T)
        track("max_dev_aniso", abs(o["percent_anisotropy"] - want))
        if abs(o["percent_anisotropy"] - want) > 1e-9:
            V("aniso", qn, {"got": o["percent_anisotropy"], "want": want}, field="percent_anisotropy")
        count("range")
        if not (-1e-9 <= o["percent_anisotropy"] <= 100 + 1e-9):
            V("range", qn, {"got": o["percent_anisotropy"]}, field="percent_anisotropy")
        count("unit")
        if abs(np.linalg.norm(ax) - 1.0) > 1e-12:
            V("unit", qn, {"axis": ax, "norm": float(np.linalg.norm(ax))}, field="hexagonal_axis")

        # ---- orthorhombic inputs with distinct axes, in any frame
        if ortho and separated:
            count("ortho_mono_tric")
            for f in ("percent_monoclinic", "percent_triclinic"):
                track("max_ortho_mono_tric", abs(o[f]))
                if abs(o[f]) > tol:
                    V("ortho_mono_tric", qn, {"got": o[f], "tol": tol}, field=f)
            count("ortho_sumsq")
            s2 = o["percent_hexagonal"] ** 2 + o["percent_tetragonal"] ** 2 + o["percent_orthorhombic"] ** 2
            a2 = o["percent_anisotropy"] ** 2
            if abs(s2 - a2) > tol * (2 * o["percent_anisotropy"] + 1):
                V("ortho_sumsq", qn, {"sum_sq": s2, "aniso_sq": a2, "out": o}, field="sumsq")
            if cond["tie"] > TIE and abs(np.linalg.norm(ax) - 1.0) <= 1e-6:
                # docstring meaning of the axis / hexagonal share, from the reported axis only
                count("ortho_hex_closest")
                dist, part = E.hex_distance_and_part(T, ax)
                if dist / nrm0 > cond["dist"].min() + 1e-9:
                    V(
                        "ortho_hex_closest",
                        qn,
                        {"axis": ax, "dist_rel": dist / nrm0, "principal_axes_dist_rel": cond["dist"]},
                        field="hexagonal_axis",
                    )
                count("ortho_hex_part")
                want_h = 100.0 * part / nrm0
                track("max_dev_ortho_hex_part", abs(o["percent_hexagonal"] - want_h))
                if abs(o["percent_hexagonal"] - want_h) > 1e-8:
                    V("ortho_hex_part", qn, {"got": o["percent_hexagonal"], "want": want_h, "axis": ax}, field="percent_hexagonal")

        # ---- frame independence against the unrotated frame
        if base is None:
            if qn == "cube00":
                base = (o, ax)
            continue
        if not unambiguous:
            continue
        o0, ax0 = base
        count("frame_percent")
        for f in PCT:
            track("max_dev_frame_percent", abs(o[f] - o0[f]))
            if abs(o[f] - o0[f]) > tol:
                V("frame_percent", qn, {"rotated": o[f], "unrotated": o0[f], "tol": tol, "gap": gap}, field=f)
        count("frame_axis")
        want_ax = Q @ ax0
        dev = min(np.abs(ax - want_ax).max(), np.abs(ax + want_ax).max())
        track("max_dev_frame_axis", dev)
        if dev > tol_ax:
            V(
                "frame_axis",
                qn,
                {"rotated": ax, "Q_times_unrotated": want_ax, "unrotated": ax0, "dev": float(dev), "gap": gap},
                field="hexagonal_axis",
            )
        if cond["aniso_rel"] > 1e-3:
            res["nontrivial"].append(digest(sorted(key.items()), qn))

    res["states"] = len(fr)
    res["notes"].update(mx)
    # the result the caller kept from its FIRST call is still what it was when it was returned
    # (seed C12h: output arrays served from a cache keyed on the series length)
    if held is not None:
        count("held_result_unchanged")
        try:
            now = {k: float(held[0][k][0]) for k in held[1]}
            axn = np.array(held[0]["hexagonal_axis"][0], float)
            if not (all(now[k] == held[1][k] or (np.isnan(now[k]) and np.isnan(held[1][k])) for k in now) and np.array_equal(axn, held[2], equal_nan=True)):
                V("held_result_unchanged", "first", {"kept_result_now": now, "as_returned": held[1]}, field="held")
        except Exception as e:
            V("held_result_unchanged", "first", {"exception": type(e).__name__}, field="held")
    # a stack of several matrices in one call must give, entry by entry, what each matrix
    # gives alone (no state carried from one entry of the stack to the next)
    if len(singles) >= 2:
        count("stack_equals_singles")
        res["n"] += 1
        try:
            out = _EC(np.array([m for m, _ in singles]))
            for j, (_, want) in enumerate(singles):
                got = np.array([float(out[k][j]) for k in ["bulk_modulus", "shear_modulus"] + PCT] + list(np.array(out["hexagonal_axis"][j], float)))
                if not np.allclose(got, want, rtol=0, atol=1e-9, equal_nan=True):
                    V("stack_equals_singles", "stack", {"entry": j, "got": got, "alone": want}, entry=j)
                    break
        except Exception as e:
            V("stack_equals_singles", "stack", {"exception": type(e).__name__, "msg": str(e)[:200]}, exc=type(e).__name__)
    res["obs"] = digest(*obs)
    res["sample"] = {
        "case": key,
        "frames": len(fr),
        "gap_d": cond["gap_d"],
        "gap_v": cond["gap_v"],
        "frame_clauses_evaluated": bool(unambiguous),
        "unrotated": None if base is None else {**base[0], "hexagonal_axis": base[1].tolist()},
    }
    return res
