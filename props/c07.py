"""C07 - null forcing leaves the texture unchanged; unsupported regimes are rejected
(engine A on derivatives, engine B on update histories)."""

import itertools

import numpy as np

from mc import alph
from mc.runner import digest, empty_result
from props import _hist as H
from props import _rates as R

PID = "C07"
RULE = (
    "(a) derivatives(): regime ordinals -1..9 x fabric(6) and all 2 x 6 (phase, fabric) pairs plus "
    "out-of-range phase / fabric ordinals, x 3 gradients x 2 textures: unsupported and invalid "
    "ordinals must raise, null regimes must return exact zeros; (b) update histories on real "
    "minerals: roots fabric(6) x <=1 deviation over (texture, volumes, n_grains, parameters); ALL "
    "sequences to depth 2 over the 12 update letters for the null cases (zero gradient in every "
    "accepted regime; regimes min/max viscosity under every letter; M* = 0 under every letter "
    "with no grain below the sliding threshold) and the long chains / compositions; the newest "
    "snapshot must equal the previous one while F follows the C06 reference; (c) rejected "
    "updates (regime ordinals 2,3,5,-1,8,9; mismatched phase/fabric; invalid phase ordinals 2,7,-1,99 "
    "with an ordinary parameter set in every accepted regime; a VALID phase absent from the "
    "assemblage is not covered by the statement) must raise and leave the stored history "
    "untouched (length and content hashes). Non-trivial: null case with L != 0, or a rejected "
    "update on a mineral that already holds >= 2 snapshots; distinct = (case key, sequence)."
)
ASSUMPTIONS = [
    "invalid phase / fabric ordinals are required to raise only in the dislocation-type regimes (where the CRSS lookup needs them)",
    "'unchanged' for null forcing: orientations and fractions within 1e-12 of the previous snapshot",
    "F reference as in C06 (expm / DOP853), bound 5e-3 + 1e-3 (N + 2 strain)",
]
BOUND = {"quick": "history depth 2, 12 letters + zero-gradient letters, <=1 root deviation", "thorough": "depth 3, <=1 root deviation"}

NULL_LETTERS = [("zero", 0.1), ("zero", 0.5)]
VGS = ["ss_xz", "gen0", "rigid_xz"]


def ALPHABETS():
    return {"regime_ordinals": 11, "phase_fabric_pairs": 12, "update_letters": len(H.STEP_LETTERS) + len(NULL_LETTERS)}


def warmup():
    R.warm()
    H.warm()


def gen_cases(tier, seed):
    keys = []
    # (a) derivatives directly
    for rg in range(-1, 10):
        for fab in alph.FABRICS:
            keys.append(dict(part="deriv", regime=rg, fab=fab))
    for ph, fb in itertools.product((0, 1, 2, -1), (0, 1, 2, 3, 4, 5, 6, -1)):
        keys.append(dict(part="pair", phase=ph, fabric=fb))
    dev = 1  # (the thorough tier deepens the histories, depth 3; roots stay within 1 deviation)
    depth = 2 if tier == "quick" else 3
    # (b) null cases
    for k in H.root_keys(tier, ["minvisc", "maxvisc"], dev=dev):
        keys.append(dict(k, part="null", null="regime", depth=depth))
    for k in H.root_keys(tier, list(H.REGIMES), dev=dev):
        keys.append(dict(k, part="null", null="zeroL", depth=depth))
    for k in H.root_keys(tier, ["disl", "yield"], dev=dev, prms=["M0", "M0chi0"]):
        if k["vol"] == "uniform" or k["prm"] == "M0chi0":
            keys.append(dict(k, part="null", null="M0", depth=depth))
    # (c) rejected updates
    for fab in alph.FABRICS:
        for rg in (2, 3, 5, -1, 8, 9):
            for pre in (0, 1, 2):
                keys.append(dict(part="reject", fab=fab, regime=rg, pre=pre, how="regime"))
    for ph, fb in [(0, 5), (1, 0), (1, 3), (2, 0), (0, 6)]:
        for fl in ("gen", "zero", "rigid", "ps_xy"):
            for tex in ("random", "aligned"):
                keys.append(dict(part="reject", phase=ph, fabric=fb, regime=4, pre=0, how="pair", flow=fl, tex=tex))
    # invalid phase ordinals on a mineral driven with an ordinary parameter set (the ordinal is
    # then also absent from the assemblage; seed C07e), in every accepted regime
    for ph in (2, 7, -1, 99):
        for fb in (0, 5):
            for rg in (4, 6, 1, 0, 7):
                for fl in ("gen", "zero"):
                    keys.append(dict(part="reject", phase=ph, fabric=fb, regime=rg, pre=0, how="pair", flow=fl, tex="random", asm="default"))
    for fab in alph.FABRICS:
        for pre in (0, 2):
            keys.append(dict(part="reject", fab=fab, regime=4, pre=pre, how="get_regime"))
    # the regime may also be supplied by a callable, and through the bulk update
    for fab in alph.FABRICS:
        for rg in (0, 7):
            for via in ("single", "bulk"):
                keys.append(dict(part="nullcb", fab=fab, regime=rg, via=via))
        for rg in (2, 3, 5, -1, 8):
            for via in ("single", "bulk"):
                keys.append(dict(part="rejectcb", fab=fab, regime=rg, via=via))
    return keys


def V(res, key, clause, detail, **kw):
    k = dict(key)
    k.update(kw)
    res["viol"].append({"clause": clause, "key": k, "detail": detail})


def run_case(key):
    return {"deriv": run_deriv, "pair": run_pair, "null": run_null, "reject": run_reject, "nullcb": run_callback, "rejectcb": run_callback}[key["part"]](key)


def run_callback(key):
    """Regime supplied by a get_regime(t, x) callable (constant here), through
    Mineral.update_orientations and through pydrex.update_all (olivine + enstatite)."""
    res = empty_result()
    pd = H.pd()
    ph, fb = alph.FABRICS[key["fab"]]
    rg = key["regime"]
    get_regime = lambda t, x: rg  # noqa
    if key["via"] == "single":
        minerals = [H.build_mineral(dict(fab=key["fab"], reg="disl", tex="random", vol="uniform", ng=5, prm="default"))]
        prm = H.params_for(ph, "default")
    else:
        other = "enAB" if ph == 0 else "olA"
        minerals = [H.build_mineral(dict(fab=key["fab"], reg="disl", tex="random", vol="uniform", ng=5, prm="default")), H.build_mineral(dict(fab=other, reg="disl", tex="cluster", vol="uniform", ng=5, prm="default"))]
        prm = H.params_for(0, "default", assemblage=[pd.MineralPhase(ph), pd.MineralPhase(1 - ph)], fractions=(0.6, 0.4))
    obs = []
    for fln in ("gen", "ss_xz", "time"):
        fl = H.flow(fln)
        ms = [H.copy.deepcopy(m) for m in minerals]
        F0 = H.f0("generic")
        before = [(len(m.orientations), H.snapshot_hashes(m)) for m in ms]
        res["n"] += 1
        res["trans"] += 1
        res["states"] += 1
        try:
            with H.time_limit():
                if key["via"] == "single":
                    F = ms[0].update_orientations(prm, F0, fl.L, (0.0, 0.5, fl.x), get_regime=get_regime)
                else:
                    F = pd.update_all(ms, prm, F0, fl.L, (0.0, 0.5, fl.x), get_regime=get_regime)
            out = "returned"
        except Exception as e:
            out = "raised:" + type(e).__name__
        obs.append(out)
        res["outcomes"].append(out)
        if key["part"] == "rejectcb":
            res["clauses"]["rejected_update_raises"] = res["clauses"].get("rejected_update_raises", 0) + 1
            if out == "returned":
                V(res, key, "rejected_update_raises", {"outcome": out}, flow=fln)
            res["clauses"]["history_untouched"] = res["clauses"].get("history_untouched", 0) + 1
            after = [(len(m.orientations), H.snapshot_hashes(m)[: b[0]]) for m, b in zip(ms, before)]
            if after != before:
                V(res, key, "history_untouched", {"before": [b[0] for b in before], "after": [a[0] for a in after]}, flow=fln)
        else:
            res["clauses"]["null_update_completes"] = res["clauses"].get("null_update_completes", 0) + 1
            if out != "returned":
                V(res, key, "null_update_completes", {"outcome": out}, flow=fln)
                continue
            for j, m in enumerate(ms):
                res["clauses"]["orientations_unchanged"] = res["clauses"].get("orientations_unchanged", 0) + 1
                d = float(np.abs(m.orientations[-1] - m.orientations[-2]).max())
                if not d <= 1e-12:
                    V(res, key, "orientations_unchanged", {"dev": d}, flow=fln, mineral=j, form="other")
                res["clauses"]["fractions_unchanged"] = res["clauses"].get("fractions_unchanged", 0) + 1
                d = float(np.abs(m.fractions[-1] - m.fractions[-2]).max())
                if not d <= 1e-12:
                    V(res, key, "fractions_unchanged", {"dev": d}, flow=fln, mineral=j, form="other")
                obs.append(digest(m.orientations[-1], m.fractions[-1]))
            res["clauses"]["F_follows"] = res["clauses"].get("F_follows", 0) + 1
            Fref = H.ref_F(fl, F0, 0.0, 0.5)
            err = float(np.abs(np.asarray(F) - Fref).max() / max(1.0, np.abs(Fref).max()))
            if not err <= H.ode_bound(1, fl.strain(0.0, 0.5)):
                V(res, key, "F_follows", {"rel_err": err}, flow=fln)
    res["nontrivial"].append(digest(key))
    res["obs"] = digest(*obs)
    res["sample"] = {"case": key, "outcomes": obs[:3]}
    return res


def run_deriv(key):
    res = empty_result()
    ph, fb = alph.FABRICS[key["fab"]]
    rg = key["regime"]
    obs = []
    for vg, tex in itertools.product(VGS, ("cube", "gen")):
        L, D = alph.normalised(alph.VG[vg])
        names = list(alph.CUBE)[:4] if tex == "cube" else [k for k in alph.ORI if k.startswith("I.g0")][:4]
        A = np.array([alph.ORI[k] for k in names])
        f = alph.volumes("dominant", 4)
        res["n"] += 1
        res["trans"] += 1
        try:
            dA, df = R.call(rg, ph, fb, A, f, D, L, spin=np.zeros((3, 3)))
            out = "returned"
        except Exception as e:
            out = "raised:" + type(e).__name__
        res["outcomes"].append(f"{rg}:{out}")
        obs.append(out)
        if rg in (2, 3, 5) or rg < 0 or rg > 7:
            res["clauses"]["unsupported_regime_raises"] = res["clauses"].get("unsupported_regime_raises", 0) + 1
            if out == "returned":
                V(res, key, "unsupported_regime_raises", {"returned": True}, vg=vg, tex=tex)
        elif rg in (0, 7):
            res["clauses"]["null_regime_zero_rates"] = res["clauses"].get("null_regime_zero_rates", 0) + 1
            if out != "returned":
                V(res, key, "null_regime_zero_rates", {"outcome": out}, vg=vg, tex=tex, form="raises")
            elif np.any(dA != 0) or np.any(df != 0):
                form = "identity_rate" if all(np.array_equal(x, np.eye(3)) for x in dA) else "other"
                V(res, key, "null_regime_zero_rates", {"max_dA": float(np.abs(dA).max()), "max_df": float(np.abs(df).max())}, vg=vg, tex=tex, form=form)
            obs += [dA, df] if out == "returned" else []
        else:
            res["clauses"]["accepted_regime_returns"] = res["clauses"].get("accepted_regime_returns", 0) + 1
            if out != "returned":
                V(res, key, "accepted_regime_returns", {"outcome": out}, vg=vg, tex=tex)
    res["states"] = 6
    res["nontrivial"].append(digest(key))
    res["obs"] = digest(*obs)
    res["sample"] = {"case": key}
    return res


def run_pair(key):
    """(phase, fabric) ordinals, in both dislocation-type regimes."""
    res = empty_result()
    ph, fb = key["phase"], key["fabric"]
    valid = (ph, fb) in set(alph.FABRICS.values())
    obs = []
    # gradient x texture letters: generic, and every shortcut that skips the slip
    # computation (zero gradient, rigid rotation, cube-aligned grains with no resolved shear)
    vgs = {"gen0": alph.VG["gen0"], "ss_xz": alph.VG["ss_xz"], "ax_z-": alph.VG["ax_z-"], "rigid_xz": alph.VG["rigid_xz"], "zero": np.zeros((3, 3))}
    texs = {"gen": np.array([alph.GEN["g0"], alph.GEN["g1"]]), "identity": np.array([np.eye(3), np.eye(3)]), "cube": np.array(list(alph.CUBE.values())[:2])}
    for rg, (vn, Lraw), (tn, A) in itertools.product((4, 6), vgs.items(), texs.items()):
        L, D = alph.normalised(Lraw)
        res["n"] += 1
        res["trans"] += 1
        try:
            R.call(rg, ph, fb, A, np.full(2, 0.5), D, L)
            out = "returned"
        except Exception as e:
            out = "raised:" + type(e).__name__
        obs.append(out)
        res["outcomes"].append(f"{valid}:{out}")
        res["clauses"]["phase_fabric_validation"] = res["clauses"].get("phase_fabric_validation", 0) + 1
        if valid and out != "returned":
            V(res, key, "phase_fabric_validation", {"outcome": out}, regime=rg, vg=vn, tex=tn, form="valid_pair_rejected")
        if not valid and out == "returned":
            V(res, key, "phase_fabric_validation", {"outcome": out}, regime=rg, vg=vn, tex=tn, form="invalid_pair_accepted")
    res["states"] = 2 * len(vgs) * len(texs)
    res["nontrivial"].append(digest(key))
    res["obs"] = digest(*obs)
    res["sample"] = {"case": key}
    return res


def run_null(key):
    res = empty_result()
    ph, fb = alph.FABRICS[key["fab"]]
    n = key["ng"]
    prm = H.params_for(ph, key["prm"])
    m = H.build_mineral(key)
    F0 = H.f0("generic")
    root = H.State(m, F0)
    root.aux["Fref"] = F0.copy()
    kind = key["null"]
    letters = NULL_LETTERS + ([("zero", 1.0)] if kind == "zeroL" else [])
    if kind != "zeroL":
        letters = H.STEP_LETTERS + NULL_LETTERS
    obs = []
    cl = res["clauses"]

    def step(st, lt):
        fl = H.flow(lt[0])
        child = st.clone()
        t1 = st.t + lt[1]
        hist = "/".join(st.hist + [H.letter_name(lt)])
        res["n"] += 1
        try:
            F = H.update(child.m, prm, child.F, fl, st.t, t1)
        except Exception as e:
            cl["null_update_completes"] = cl.get("null_update_completes", 0) + 1
            V(res, key, "null_update_completes", {"exception": type(e).__name__, "msg": str(e)[:160]}, hist=hist, exc=type(e).__name__)
            if isinstance(e, H.UpdateTimeout):
                raise H.StopExploration()
            return None
        cl["null_update_completes"] = cl.get("null_update_completes", 0) + 1
        child.F, child.t = np.asarray(F, float), t1
        child.N += 1
        child.strain += fl.strain(st.t, t1)
        child.hist.append(H.letter_name(lt))
        a = child.m
        if len(a.orientations) != len(st.m.orientations) + 1:
            V(res, key, "append_one", {"len": len(a.orientations)}, hist=hist)
            return None
        fin = np.isfinite(a.orientations[-1]).all() and np.isfinite(a.fractions[-1]).all()
        if kind in ("regime", "zeroL"):
            cl["orientations_unchanged"] = cl.get("orientations_unchanged", 0) + 1
            d = float(np.abs(a.orientations[-1] - a.orientations[-2]).max()) if fin else np.inf
            if not d <= 1e-12:
                form = "nan" if not fin else "other"
                V(res, key, "orientations_unchanged", {"dev": d}, hist=hist, form=form)
        # grains below the sliding threshold chi/n are legitimately floored (C09): the
        # clause is evaluated on states in which no grain is below it
        if a.fractions[-2].min() >= prm["gbs_threshold"] / n:
            cl["fractions_unchanged"] = cl.get("fractions_unchanged", 0) + 1
            d = float(np.abs(a.fractions[-1] - a.fractions[-2]).max()) if fin else np.inf
            if not d <= 1e-12:
                V(res, key, "fractions_unchanged", {"dev": d}, hist=hist, form="nan" if not fin else "other")
        else:
            res["notes"]["fraction_clause_skipped_grain_below_threshold"] = res["notes"].get("fraction_clause_skipped_grain_below_threshold", 0) + 1
        # F still follows dF/dt = L F
        cl["F_follows"] = cl.get("F_follows", 0) + 1
        Fref = H.ref_F(fl, st.aux["Fref"], st.t, t1)
        child.aux["Fref"] = Fref
        err = float(np.abs(child.F - Fref).max() / max(1.0, np.abs(Fref).max())) if np.isfinite(child.F).all() else np.inf
        if not err <= H.ode_bound(child.N, child.strain):
            V(res, key, "F_follows", {"rel_err": err, "bound": H.ode_bound(child.N, child.strain)}, hist=hist)
        if lt[0] != "zero":
            res["nontrivial"].append(digest(key, hist))
        obs.append(digest(a.orientations[-1], a.fractions[-1], child.F))
        return child

    ns, nt = H.bfs(root, letters, key["depth"], step)
    res["states"], res["trans"] = ns, nt
    if H.LAST["budget_stop"]:
        res["notes"]["cases_cut_at_cpu_budget"] = res["notes"].get("cases_cut_at_cpu_budget", 0) + 1
    res["outcomes"] += obs[:20]
    res["obs"] = digest(*obs)
    res["sample"] = {"case": key, "states": ns, "transitions": nt}
    return res


def run_reject(key):
    res = empty_result()
    pd = H.pd()
    if key["how"] == "pair":
        ph, fb = key["phase"], key["fabric"]
        n = 4
        m = pd.Mineral(phase=ph, fabric=fb, regime=key["regime"], n_grains=n, fractions_init=alph.volumes("uniform", n), orientations_init=alph.texture(key.get("tex", "random"), n))
        if key.get("asm") == "default":
            prm = H.params_for(0, "default")  # phase_assemblage = (olivine,)
        else:
            prm = H.params_for(0, "default", assemblage=[ph], fractions=(1.0,))
        good_regime = 4
    else:
        ph, fb = alph.FABRICS[key["fab"]]
        k = dict(fab=key["fab"], reg="disl", tex="random", vol="geometric", ng=4, prm="default")
        m = H.build_mineral(k)
        prm = H.params_for(ph, "default")
        good_regime = 4
    F = np.eye(3)
    t = 0.0
    # pre-history with a supported regime so that there is something to lose
    if key["how"] != "pair":
        for i in range(key["pre"]):
            F = H.update(m, prm, F, H.flow("gen"), t, t + 0.2)
            t += 0.2
    before = (len(m.orientations), len(m.fractions), H.snapshot_hashes(m))
    get_regime = None
    if key["how"] == "regime":
        m.regime = key["regime"]
    elif key["how"] == "get_regime":
        # the regime becomes unsupported half-way through the interval
        t_half = t + 0.15
        get_regime = lambda tt, x: 4 if tt < t_half else 5  # noqa
    res["n"] += 1
    res["trans"] = key["pre"] + 1
    res["states"] = key["pre"] + 1
    res["clauses"]["rejected_update_raises"] = 1
    fl = H.flow(key.get("flow", "gen"))
    try:
        with H.time_limit():
            m.update_orientations(prm, F, fl.L, (t, t + 0.3, fl.x), get_regime=get_regime)
        out = "returned"
    except Exception as e:
        out = "raised:" + type(e).__name__
    if out == "returned":
        V(res, key, "rejected_update_raises", {"outcome": out})
    res["clauses"]["history_untouched"] = 1
    after = (len(m.orientations), len(m.fractions), H.snapshot_hashes(m)[: before[0]])
    if after != before:
        V(res, key, "history_untouched", {"before": before[:2], "after": after[:2], "same_hashes": after[2] == before[2]})
    if key["pre"] >= 1:
        res["nontrivial"].append(digest(key))
    res["outcomes"].append(out)
    res["obs"] = digest(out, *after[2])
    res["sample"] = {"case": key, "outcome": out}
    return res
