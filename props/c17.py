"""C17 - mineral persistence round trip (engine B: explicit-state exploration of operation
sequences on real NPZ archives; reference model = plain dict
postfix -> (phase, fabric, regime, n_grains, [fraction bytes], [orientation bytes])).

Three kinds of cases

  single  one mineral of the 576-mineral pool saved alone under every postfix letter and as a
          whole file; read back through Mineral.from_file and Mineral.load (target of equal
          grain count / of a different grain count); second generation (save the loaded
          object again, read again).
  reject  the same mineral put into every corrupt state of the statement (unequal snapshot
          counts; array sizes not matching the grain count) and given to save() in five
          directory contexts: ValueError, directory listing and existing bytes unchanged;
          valid archive bytes under non-.npz names given to both loaders: ValueError.
  seq     k minerals under k distinct postfixes saved into ONE archive in the order `so`
          (plus a whole-file save of a (k+1)-th mineral, see below);
          after every save the archive key set, the directory listing and every mineral
          saved so far are compared with the reference; then all three one-shot loaders on
          the final state, then loads in every order: a *chain* object that loads one postfix
          after the other (state leaking from one load into the next is visible there) plus a
          rotating one-shot loader; archive bytes must not change by loading.  In a third
          of the cases the whole-file save is the first operation on the SAME archive, so that
          un-postfixed and postfixed members coexist.

Nothing in this module compares archive *bytes* of two different saves (zip members carry a
wall-clock time stamp); bytes are only compared before/after operations that must not write.
"""

import hashlib
import itertools
import logging
import os
import shutil

import numpy as np

from mc import alph
from mc.runner import digest, empty_result, workdir

PID = "C17"
RULE = (
    "mineral pool = 6 (phase,fabric) x 8 regimes x n_grains {1,2,5} x 1..4 snapshots = 576, built "
    "without the solver, every float64 slot filled from a cyclic alphabet of adversarial bit "
    "patterns (-0.0, denormals, 1-2^-53, all-mantissa-bit values, +-max, +-inf, quiet/signalling "
    "NaN payloads) plus seed-derived generic bit patterns; single: every mineral x whole file and "
    "postfix letters (quick: 3 rotating with the mineral, thorough: all) x 3 loaders x second generation; reject: every mineral x corrupt forms "
    "x 5 directory contexts, 8 non-.npz names x 2 loaders x {whole, postfix}; seq: sets of k "
    "minerals (pool index base + j*113: all of phase/regime/n/snapshot-count differ inside a set) "
    "under a k-subset of the postfix alphabet (windows over a list ordered so that neighbours are "
    "prefixes/suffixes of each other), one case per save order; inside a case every load order. "
    "A sub-case is non-trivial when it is a distinct (mineral set, postfix set, save order, load "
    "order) or (mineral, postfix) or (mineral, corrupt form, context); distinct = distinct id."
)
ASSUMPTIONS = [
    "numpy.load / NpzFile.files and ndarray.tobytes are trusted as the observation of an archive",
    "CPython reference counting closes the ZipFile / NpzFile handles the implementation leaves open",
    "save() is given str paths ending in .npz; per DESIGN 1.9 'non-NPZ filenames are rejected' is "
    "asserted for load/from_file only and 'without writing' for rejected saves",
    "postfixes are str, distinct inside one archive, and do not end in '.npy' (numpy strips that "
    "suffix from member names, which would make the key set ambiguous)",
    "phase/fabric/regime are compared with == (the loaders return numpy uint8 scalars, not enum "
    "members; the statement does not name a type)",
    "corrupt 'array sizes' = leading dimension of a fractions/orientations snapshot different "
    "from n_grains; trailing orientation dimensions are not varied",
]
BOUND = {
    "quick": "k = 1..4 minerals per archive, all k! save orders x all k! load orders (k=2: 576 mineral "
    "sets, k=3: 116, k=4: 26; in every 3rd case the whole-file save is the first operation on the same "
    "archive and the postfixes are appended to it, otherwise it goes to a second file), 18 postfix "
    "letters (k=1: whole file + 3 rotating letters per mineral), "
    "576 minerals, 14 corrupt forms x 5 contexts, 8 non-.npz names",
    "thorough": "k=1: every mineral x every postfix letter; k=2,3: 576 sets; k=4: 192 sets; k=5: all "
    "120 x 120 orders on 9 sets; k=6..8: all rotations + reversal of save and of load order on 72 sets each",
}

# ----------------------------------------------------------------------------- alphabets

FABRICS = [(0, 0), (0, 1), (0, 2), (0, 3), (0, 4), (1, 5)]
REGIMES = list(range(8))
NS = [1, 2, 5]
SNAPS = [1, 2, 3, 4]
POOL = [(ph, fb, rg, n, s) for (ph, fb) in FABRICS for rg in REGIMES for n in NS for s in SNAPS]
STRIDE = 113  # = 96 + 12 + 4 + 1: next fabric, next regime, next n, next snapshot count

# ordered so that neighbours collide as prefixes / suffixes / case variants of each other
PF = ["a", "a_b", "b", "b_a", "a_", "_a", "", "_", "meta", "fractions", "orientations_a",
      "A", "0", "ol 1", "x.y", "a/b", "ö", "meta_a"]

_SPECIAL_FLOATS = [
    -0.0, 0.0, 5e-324, -5e-324, 2.2250738585072009e-308, 2.2250738585072014e-308,
    1.0 - 2.0**-53, 1.0, 1.0 + 2.0**-52, -1.0, 1.7976931348623157e308, -1.7976931348623157e308,
    1e-300, 1e300, 0.1, 1.0 / 3.0, 3.141592653589793, 1e-7, 16777217.0, float("inf"), -float("inf"),
]
_SPECIAL_BITS = [
    0x400FFFFFFFFFFFFF,  # all 52 mantissa bits set
    0x3FF5555555555555,  # alternating mantissa
    0xBFFAAAAAAAAAAAAA,
    0x0005555555555555,  # denormal with a pattern
    0x000FFFFFFFFFFFFE,
    0x7FF8000000000000,  # quiet NaN
    0x7FF8000000000001,  # quiet NaN with payload
    0xFFF8000000000000,  # negative NaN
    0x7FF0000000000001,  # signalling NaN
    0x7FFFFFFFFFFFFFFF,
]
_LETTERS = {}


def _is_prime(x):
    return x > 1 and all(x % q for q in range(2, int(x**0.5) + 1))


def letters():
    """uint64 bit patterns of the content alphabet (special + seed-derived generic).  The
    length is made a prime different from 37 so that the per-mineral offsets differ."""
    s = alph.SEED
    if s not in _LETTERS:
        sp = list(np.array(_SPECIAL_FLOATS, dtype=np.float64).view(np.uint64)) + [np.uint64(b) for b in _SPECIAL_BITS]
        g = 6
        while not _is_prime(len(sp) + g) or len(sp) + g in (37, 113):
            g += 1
        rng = np.random.default_rng(1700 + s)
        gen = rng.integers(0, 2**63, size=g, dtype=np.uint64) * np.uint64(2) + rng.integers(0, 2, size=g, dtype=np.uint64)
        _LETTERS[s] = np.array(sp + list(gen), dtype=np.uint64)
    return _LETTERS[s]


def contents(mi):
    """Plain arrays of pool mineral mi: (list of (n,) arrays, list of (n,3,3) arrays)."""
    ph, fb, rg, n, s = POOL[mi]
    L = letters()
    fr, ori = [], []
    for j in range(s):
        off = (mi * 37 + j * 11) % len(L)
        v = L[(off + np.arange(10 * n)) % len(L)].view(np.float64)
        fr.append(v[:n].copy())
        ori.append(v[n:].reshape(n, 3, 3).copy())
    return fr, ori


def ref_of(mi):
    """Reference record (plain Python) of pool mineral mi."""
    ph, fb, rg, n, s = POOL[mi]
    fr, ori = contents(mi)
    return {"mi": mi, "phase": ph, "fabric": fb, "regime": rg, "n": n,
            "f": [a.tobytes() for a in fr], "o": [a.tobytes() for a in ori]}


_P = {}


def P():
    if not _P:
        from pydrex import core
        from pydrex.minerals import Mineral

        _P.update(Mineral=Mineral, core=core)
        logging.getLogger("pydrex").setLevel(logging.CRITICAL)  # no log formatting per call
    return _P


def build(mi):
    """The real Mineral for pool entry mi, built without running the solver.  Even entries
    are given enum members, odd entries plain ints (both are accepted by the constructor)."""
    ph, fb, rg, n, s = POOL[mi]
    p = P()
    fr, ori = contents(mi)
    if mi % 2 == 0:
        c = p["core"]
        ph, fb, rg = c.MineralPhase(ph), c.MineralFabric(fb), c.DeformationRegime(rg)
    m = p["Mineral"](phase=ph, fabric=fb, regime=rg, n_grains=n, fractions_init=fr[0], orientations_init=ori[0])
    for j in range(1, s):
        m.fractions.append(fr[j])
        m.orientations.append(ori[j])
    return m


def target(n, s, r, salt):
    """A load() target: n grains, s snapshots, junk contents, meta different from r."""
    p = P()
    m = p["Mineral"](
        phase=1 - r["phase"], fabric=(r["fabric"] + 1) % 6, regime=(r["regime"] + 3) % 8, n_grains=n,
        fractions_init=np.full(n, 0.125 + salt), orientations_init=np.full((n, 3, 3), -7.5 - salt),
    )
    for j in range(1, s):
        m.fractions.append(np.full(n, 0.25 + j))
        m.orientations.append(np.full((n, 3, 3), 1.5 + j))
    return m


OTHER_N = {1: [2, 5, 3], 2: [5, 1, 3], 5: [1, 2, 3]}


def pf_sets(k):
    return [tuple(PF[(i + j) % len(PF)] for j in range(k)) for i in range(len(PF))]


def ALPHABETS():
    return {
        "minerals": len(POOL), "fabrics": len(FABRICS), "regimes": len(REGIMES), "n_grains": len(NS),
        "snapshot_counts": len(SNAPS), "content_letters": int(len(letters())), "postfix_letters": len(PF),
        "corrupt_forms": len(CORRUPT), "reject_contexts": len(CONTEXTS), "non_npz_names": len(BAD_NAMES),
    }


def warmup():
    P()
    letters()


# ----------------------------------------------------------------------------- enumeration

def _orders(k, tier):
    if k <= 5:
        return ["".join(map(str, p)) for p in itertools.permutations(range(k))]
    rot = ["".join(str((i + r) % k) for i in range(k)) for r in range(k)]
    return rot + ["".join(str(k - 1 - i) for i in range(k))]


def gen_cases(tier, seed):
    keys = []
    nb = len(POOL)
    for b in range(nb):
        keys.append({"kind": "single", "base": b, "pfs": "rot4" if tier == "quick" else "all"})
    for b in range(nb):
        keys.append({"kind": "reject", "base": b})
    for b in range(0, nb, 1 if tier != "quick" else 5):
        keys.append({"kind": "resave", "base": b})
    plan = [(2, 1), (3, 5), (4, 23)] if tier == "quick" else [(2, 1), (3, 1), (4, 3), (5, 71), (6, 8), (7, 8), (8, 8)]
    for k, step in plan:
        ns = len(pf_sets(k))
        for b in range(0, nb, step):
            for oi, so in enumerate(_orders(k, tier)):
                whole = "same_first" if (oi + b // step) % 3 == 0 else "separate"
                keys.append({"kind": "seq", "k": k, "base": b, "pf": (b // step) % ns, "so": so, "whole": whole})
    return keys


# ----------------------------------------------------------------------------- helpers

def casedir(key):
    d = os.path.join(workdir(PID), "c_" + digest(sorted(key.items())))
    shutil.rmtree(d, ignore_errors=True)
    os.makedirs(d)
    return d


def tree(d):
    """{relative path: sha256 of bytes or 'DIR'} of everything under d."""
    out = {}
    for root, dirs, files in os.walk(d):
        for x in dirs:
            out[os.path.relpath(os.path.join(root, x), d)] = "DIR"
        for x in files:
            with open(os.path.join(root, x), "rb") as f:
                out[os.path.relpath(os.path.join(root, x), d)] = hashlib.sha256(f.read()).hexdigest()
    return out


def ref_keys(postfixes):
    out = []
    for p in postfixes:
        suffix = "" if p is None else f"_{p}"
        out += ["meta" + suffix, "fractions" + suffix, "orientations" + suffix]
    return sorted(out)


def pfk(p):
    return "none" if p is None else "str"


def _eq(a, b):
    try:
        return bool(a == b)
    except Exception:
        return False


def _shape(x):
    return str(tuple(getattr(x, "shape", ("?",)))).replace(" ", "")


class Ctx:
    """Per-case bookkeeping (counts, violations, observation hash)."""

    def __init__(self, key):
        self.key = key
        self.res = empty_result()
        self.h = hashlib.sha256()
        self.out = set()
        self.nt = set()
        self.probed = False

    def clause(self, c, k=1):
        self.res["clauses"][c] = self.res["clauses"].get(c, 0) + k

    def V(self, clause, vkey, detail):
        self.res["viol"].append({"clause": clause, "key": vkey, "detail": detail})

    def observe(self, *parts):
        for p in parts:
            self.h.update(p if isinstance(p, bytes) else repr(p).encode())

    def finish(self, sample):
        self.res["outcomes"] = sorted(self.out)
        self.res["nontrivial"] = sorted(self.nt)
        self.res["obs"] = self.h.hexdigest()[:16]
        self.res["sample"] = sample
        return self.res


def observe_mineral(cx, m):
    """Hash what was observed of a loaded object (no addresses, no time stamps)."""
    h = hashlib.sha256()
    for x in (m.phase, m.fabric, m.regime, m.n_grains):
        h.update((repr(int(x)) if _is_intlike(x) else repr(x)).encode())
    for lst in (m.fractions, m.orientations):
        h.update(b"L%d" % len(lst))
        for a in lst:
            if isinstance(a, np.ndarray):
                h.update(a.dtype.str.encode() + repr(a.shape).encode())
                h.update(a.tobytes())
            else:
                h.update(repr(type(a)).encode())
    d = h.hexdigest()[:16]
    cx.observe(d)
    cx.out.add(d)


def _is_intlike(x):
    return isinstance(x, (int, np.integer))


def compare(cx, m, r, loader, tgt, pf, n_target=None, others=(), meta_target=None):
    """Compare a loaded object with reference record r.  loader in {from_file, load};
    tgt in {fresh, same_n, diff_n, chain, gen2}.  Returns True when everything matched."""
    ok = True
    base = {"loader": loader, "target": tgt, "pf_kind": pfk(pf)}
    observe_mineral(cx, m)
    # --- phase / fabric / regime
    cx.clause("meta")
    got = [m.phase, m.fabric, m.regime]
    exp = [r["phase"], r["fabric"], r["regime"]]
    bad = [nm for nm, g, e in zip(("phase", "fabric", "regime"), got, exp) if not _eq(g, e)]
    if bad:
        ok = False
        gi = [int(g) if _is_intlike(g) else repr(g) for g in got]
        form = "other"
        if sorted(map(str, gi)) == sorted(map(str, exp)):
            form = "permuted"
            if len(set(exp)) == 3:  # which stored slot each returned field came from
                form = "permuted_" + "".join(str(exp.index(g)) for g in gi)
        elif meta_target is not None and all(
            gi[i] == meta_target[i] for i, nm in enumerate(("phase", "fabric", "regime")) if nm in bad
        ):
            form = "keeps_target_" + "+".join(bad)
        elif any(gi == [o["phase"], o["fabric"], o["regime"]] for o in others):
            form = "meta_of_other_postfix"
        cx.V("meta", dict(base, field="+".join(bad), form=form), {"got": gi, "expected": exp, "postfix": pf, "mineral": r["mi"]})
    # --- grain count
    cx.clause("n_grains")
    if not _eq(m.n_grains, r["n"]):
        ok = False
        form = "keeps_target_n_grains" if n_target is not None and _eq(m.n_grains, n_target) else "other"
        f0 = m.fractions[0] if len(m.fractions) else None
        o0 = m.orientations[0] if len(m.orientations) else None
        detail = {"got": m.n_grains, "expected": r["n"], "postfix": pf, "mineral": r["mi"]}
        if not cx.probed:  # consequence: can the loaded object be saved again?
            cx.probed = True
            probe = os.path.join(workdir(PID), "probe_" + digest(sorted(cx.key.items())) + ".npz")
            try:
                m.save(probe)
                detail["save_of_loaded_object"] = "accepted"
            except Exception as e:
                detail["save_of_loaded_object"] = "raises " + type(e).__name__
            if os.path.exists(probe):
                os.remove(probe)
        cx.V("n_grains", dict(base, field="n_grains", form=form, n_target=n_target, n_file=r["n"],
                              shape_fractions=_shape(f0), shape_orientations=_shape(o0)), detail)
    # --- snapshots
    cx.clause("snapshots")
    n = r["n"]
    for name, lst, exp_b, shp in (("fractions", m.fractions, r["f"], (n,)), ("orientations", m.orientations, r["o"], (n, 3, 3))):
        form = None
        info = {}
        if not isinstance(lst, list) or len(lst) != len(exp_b):
            form = "snapshot_count"
            info = {"got": len(lst), "expected": len(exp_b)}
        else:
            for j, (a, eb) in enumerate(zip(lst, exp_b)):
                if not isinstance(a, np.ndarray):
                    form, info = "not_ndarray", {"snapshot": j, "type": repr(type(a))}
                elif a.dtype != np.float64:
                    form, info = "dtype_" + str(a.dtype), {"snapshot": j}
                elif a.shape != shp:
                    form, info = "shape", {"snapshot": j, "got": list(a.shape), "expected": list(shp)}
                elif a.tobytes() != eb:
                    e = np.frombuffer(eb, dtype=np.float64).reshape(shp)
                    with np.errstate(all="ignore"):
                        f32 = e.astype(np.float32).astype(np.float64)
                    if a.tobytes() == f32.tobytes():
                        form = "float32_rounded"
                    elif any(a.tobytes() in (o["f"] if name == "fractions" else o["o"]) for o in others):
                        form = "content_of_other_postfix"
                    elif a.tobytes() in exp_b:
                        form = "snapshot_order"
                    else:
                        form = "bits_differ"
                    d = np.nonzero(a.view(np.uint64).ravel() != e.view(np.uint64).ravel())[0]
                    info = {"snapshot": j, "n_slots_differ": int(len(d)), "first_slot": int(d[0]),
                            "got_bits": hex(int(a.view(np.uint64).ravel()[d[0]])), "expected_bits": hex(int(e.view(np.uint64).ravel()[d[0]]))}
                if form:
                    break
        if form:
            ok = False
            info.update(postfix=pf, mineral=r["mi"])
            cx.V("snapshots", dict(base, field=name, form=form), info)
    return ok


def call(cx, clause, vkey, fn, *a):
    """Run an implementation call that the property says must succeed."""
    cx.res["n"] += 1
    cx.res["trans"] += 1
    cx.clause(clause)
    try:
        return True, fn(*a)
    except Exception as e:
        cx.observe("EXC", type(e).__name__)
        cx.V(clause, dict(vkey, form="raises_" + type(e).__name__), {"message": str(e)[:200]})
        return False, None


def check_keys(cx, path, postfixes, vkey):
    cx.clause("keyset")
    try:
        with np.load(path) as d:
            files = list(d.files)
    except Exception as e:
        cx.V("keyset", dict(vkey, form="unreadable_" + type(e).__name__), {"message": str(e)[:200]})
        return False
    exp = ref_keys(postfixes)
    cx.observe(sorted(files))
    if sorted(files) != exp:
        missing = sorted(set(exp) - set(files))
        extra = sorted(set(files) - set(exp))
        form = "duplicate_members" if not missing and not extra else ("members_missing" if missing and not extra else ("members_extra" if extra and not missing else "members_differ"))
        cx.V("keyset", dict(vkey, form=form), {"missing": missing[:9], "extra": extra[:9], "n_files": len(files), "n_expected": len(exp)})
        return False
    return True


def check_listing(cx, d, names, vkey):
    cx.clause("listing")
    got = sorted(tree(d))
    cx.observe(got)
    if got != sorted(names):
        cx.V("listing", dict(vkey, form="unexpected_directory_listing"), {"got": got[:9], "expected": sorted(names)})
        return False
    return True


def one_load(cx, which, path, pf, r, others, salt, diff_rot):
    """One of the three one-shot loaders (0 from_file, 1 load into an object of equal grain
    count but another snapshot count, 2 load into an object of another grain count and another
    snapshot count) for (path, pf) whose reference record is r.  Returns the loaded object."""
    M = P()["Mineral"]
    if which == 0:
        ok, m = call(cx, "load_ok", {"loader": "from_file", "target": "fresh", "pf_kind": pfk(pf)}, M.from_file, path, pf)
        if ok:
            cx.res["states"] += 1
            compare(cx, m, r, "from_file", "fresh", pf, others=others)
        return m
    if which == 1:
        nt, tgt, t = r["n"], "same_n", target(r["n"], 1 + len(r["f"]) % 4, r, salt)
    else:
        nt = OTHER_N[r["n"]][diff_rot % 3]
        tgt, t = "diff_n", target(nt, 1 + (len(r["f"]) + 1) % 4, r, salt + 1)
    mt = [int(t.phase), int(t.fabric), int(t.regime)]
    ok, _ = call(cx, "load_ok", {"loader": "load", "target": tgt, "pf_kind": pfk(pf)}, t.load, path, pf)
    if ok:
        cx.res["states"] += 1
        compare(cx, t, r, "load", tgt, pf, n_target=nt, others=others, meta_target=mt)
    return t if ok else None


def loads_of(cx, path, pf, r, others, salt, diff_rot):
    """All three one-shot loaders; returns the object made by from_file."""
    first = one_load(cx, 0, path, pf, r, others, salt, diff_rot)
    one_load(cx, 1, path, pf, r, others, salt, diff_rot)
    one_load(cx, 2, path, pf, r, others, salt, diff_rot)
    return first


# ----------------------------------------------------------------------------- single

def run_single(key):
    cx = Ctx(key)
    mi = key["base"]
    r = ref_of(mi)
    d = casedir(key)
    M = P()["Mineral"]
    if key["pfs"] == "all":
        plist = [None] + PF
    else:  # whole file + three postfix letters, rotating with the mineral: every letter ~96 times
        plist = [None] + [PF[(3 * mi + j) % len(PF)] for j in range(3)]
    for i, pf in enumerate(plist):
        a = os.path.join(d, f"s{i}.npz")
        b = os.path.join(d, f"t{i}.npz")
        vk = {"op": "save", "pf_kind": pfk(pf), "k": 1}
        ok, _ = call(cx, "save_ok", vk, build(mi).save, a, pf)
        if not ok:
            continue
        cx.res["states"] += 1
        cx.nt.add(digest("single", mi, pf))
        check_listing(cx, d, [f"s{i}.npz"], vk)
        check_keys(cx, a, [pf], vk)
        before = tree(d)
        m1 = loads_of(cx, a, pf, r, (), i, i + mi)
        cx.clause("load_readonly")
        if tree(d) != before:
            cx.V("load_readonly", {"form": "loading_changed_files", "pf_kind": pfk(pf)}, {"postfix": pf})
        # second generation: the object returned by from_file is saved again and read again
        if m1 is not None and _eq(m1.n_grains, r["n"]):
            pf2 = PF[(i + 3) % len(PF)] if i % 2 else pf
            ok, _ = call(cx, "save_ok", {"op": "save_of_loaded", "pf_kind": pfk(pf2), "k": 1}, m1.save, b, pf2)
            if ok:
                check_keys(cx, b, [pf2], {"op": "save_of_loaded", "pf_kind": pfk(pf2), "k": 1})
                ok, m2 = call(cx, "load_ok", {"loader": "from_file", "target": "gen2", "pf_kind": pfk(pf2)}, M.from_file, b, pf2)
                if ok:
                    cx.res["states"] += 1
                    compare(cx, m2, r, "from_file", "gen2", pf2)
        for x in (a, b):
            if os.path.exists(x):
                os.remove(x)
    shutil.rmtree(d, ignore_errors=True)
    return cx.finish({"case": key, "mineral": list(POOL[mi]), "postfixes": plist})


# ----------------------------------------------------------------------------- reject

def _grow(a, delta):
    """Same contents with the leading dimension changed by delta (+1 / -1)."""
    if delta > 0:
        return np.concatenate([a, a[:1]], axis=0)
    return a[:-1].copy()


def corrupt(m, form, n):
    """Put mineral m (fresh object) into the corrupt state `form`; return False if the
    form does not apply to this mineral."""
    s = len(m.fractions)
    d = -1 if form.endswith("-") else 1
    if d < 0 and n < 2:
        return False
    if form == "extra_fractions":
        m.fractions.append(m.fractions[-1].copy())
    elif form == "extra_orientations":
        m.orientations.append(m.orientations[-1].copy())
    elif form == "missing_fractions":
        m.fractions.pop()
    elif form == "missing_orientations":
        m.orientations.pop()
    elif form in ("last_fractions_size1", "last_orientations_size1", "last_orientations_single_matrix"):
        # a later snapshot of a size that BROADCASTS against the grain count (seed C17h)
        if s < 2 or n < 2:
            return False
        if form == "last_fractions_size1":
            m.fractions[-1] = m.fractions[-1][:1].copy()
        elif form == "last_orientations_size1":
            m.orientations[-1] = m.orientations[-1][:1].copy()
        else:
            m.orientations[-1] = m.orientations[-1][0].copy()
    elif form.startswith("n_grains_attr"):
        m.n_grains = n + d
    elif form.startswith("first_fractions"):
        m.fractions[0] = _grow(m.fractions[0], d)
    elif form.startswith("first_orientations"):
        m.orientations[0] = _grow(m.orientations[0], d)
    elif form.startswith("all_arrays"):  # the state Mineral.load leaves after a stale-n load
        m.fractions = [_grow(a, d) for a in m.fractions]
        m.orientations = [_grow(a, d) for a in m.orientations]
    elif form.startswith("last_fractions"):
        if s < 2:
            return False
        m.fractions[-1] = _grow(m.fractions[-1], d)
    elif form.startswith("last_orientations"):
        if s < 2:
            return False
        m.orientations[-1] = _grow(m.orientations[-1], d)
    else:
        raise KeyError(form)
    return True


CORRUPT = [
    "extra_fractions", "extra_orientations", "missing_fractions", "missing_orientations",
    "n_grains_attr+", "n_grains_attr-", "first_fractions+", "first_orientations+", "all_arrays+", "all_arrays-",
    "last_fractions+", "last_orientations+", "first_fractions-", "first_orientations-",
    "last_fractions_size1", "last_orientations_size1", "last_orientations_single_matrix",
]
CONTEXTS = ["empty_whole", "empty_postfix", "existing_archive_postfix", "existing_whole_overwrite", "missing_parent_dir"]
BAD_NAMES = ["m.npy", "m.zip", "m", "m.npz.bak", "m.txt", "mnpz", "m.npz~", "m.np"]


def run_reject(key):
    cx = Ctx(key)
    mi = key["base"]
    other = (mi + STRIDE) % len(POOL)
    r = ref_of(mi)
    n = POOL[mi][3]
    d = casedir(key)
    M = P()["Mineral"]
    for ctx in CONTEXTS:
        # prepare the context directory once; every rejected save must leave it as it is
        cd = os.path.join(d, ctx)
        os.makedirs(cd)
        path, pf = os.path.join(cd, "R.npz"), None
        if ctx == "empty_postfix":
            pf = "a"
        elif ctx == "existing_archive_postfix":
            pf = "a"
            build(other).save(path, "b")
            build(other).save(path, "a_b")
        elif ctx == "existing_whole_overwrite":
            build(other).save(path)
        elif ctx == "missing_parent_dir":
            path, pf = os.path.join(cd, "sub", "dir", "R.npz"), ("a" if mi % 2 else None)
        before = tree(cd)
        for form in CORRUPT:
            m = build(mi)
            if not corrupt(m, form, n):
                continue
            cx.res["n"] += 1
            cx.res["trans"] += 1
            cx.clause("reject_corrupt")
            cx.nt.add(digest("reject", mi, form, ctx))
            outcome = "accepted"
            try:
                m.save(path, pf)
            except ValueError:
                outcome = "ValueError"
            except Exception as e:
                outcome = "raises_" + type(e).__name__
            after = tree(cd)
            cx.observe(form, ctx, outcome, sorted(after))
            cx.out.add(digest(form, ctx, outcome))
            wrote = after != before
            if outcome != "ValueError" or wrote:
                wform = outcome + ("_and_wrote" if wrote else "")
                cx.V("reject_corrupt", {"corrupt": form, "context": ctx, "form": wform, "pf_kind": pfk(pf)},
                     {"mineral": list(POOL[mi]), "new_or_changed": sorted(k for k in after if before.get(k) != after[k])[:6],
                      "n_grains": m.n_grains, "shapes_f": [_shape(a) for a in m.fractions], "shapes_o": [_shape(a) for a in m.orientations]})
                shutil.rmtree(cd)  # restore the context
                os.makedirs(cd)
                if ctx == "existing_archive_postfix":
                    build(other).save(path, "b")
                    build(other).save(path, "a_b")
                elif ctx == "existing_whole_overwrite":
                    build(other).save(path)
                before = tree(cd)
        # control: the uncorrupted mineral is accepted in the same context (the listing does change)
        ok, _ = call(cx, "save_ok", {"op": "save", "pf_kind": pfk(pf), "k": 1, "context": ctx}, build(mi).save, path, pf)
        if ok:
            cx.clause("reject_control")
            if tree(cd) == before:
                cx.V("reject_control", {"form": "valid_save_wrote_nothing", "context": ctx}, {})
            ok, m2 = call(cx, "load_ok", {"loader": "from_file", "target": "fresh", "pf_kind": pfk(pf)}, M.from_file, path, pf)
            if ok:
                compare(cx, m2, r, "from_file", "fresh", pf)
    # ---- non-.npz names given to the loaders (valid archive bytes behind every name)
    nd = os.path.join(d, "names")
    os.makedirs(nd)
    src = {None: os.path.join(nd, "whole.npz"), "a": os.path.join(nd, "post.npz")}
    build(mi).save(src[None])
    build(mi).save(src["a"], "a")
    for pf in (None, "a"):
        with open(src[pf], "rb") as f:
            blob = f.read()
        for name in BAD_NAMES:
            bad = os.path.join(nd, name)
            with open(bad, "wb") as f:
                f.write(blob)
            for loader in ("from_file", "load"):
                cx.res["n"] += 1
                cx.res["trans"] += 1
                cx.clause("reject_name")
                cx.nt.add(digest("name", mi, name, loader, pf))
                t = target(n, 1, r, 0)
                fn = M.from_file if loader == "from_file" else t.load
                outcome = "accepted"
                try:
                    fn(bad, pf)
                except ValueError:
                    outcome = "ValueError"
                except Exception as e:
                    outcome = "raises_" + type(e).__name__
                cx.observe(name, loader, pf, outcome)
                cx.out.add(digest("name", outcome))
                if outcome != "ValueError":
                    cx.V("reject_name", {"loader": loader, "name": name, "pf_kind": pfk(pf), "form": outcome}, {"mineral": list(POOL[mi])})
            os.remove(bad)
        # control: the same bytes under an .npz name load fine
        ok, m2 = call(cx, "load_ok", {"loader": "from_file", "target": "fresh", "pf_kind": pfk(pf)}, M.from_file, src[pf], pf)
        if ok:
            compare(cx, m2, r, "from_file", "fresh", pf)
    shutil.rmtree(d, ignore_errors=True)
    return cx.finish({"case": key, "mineral": list(POOL[mi]), "corrupt_forms": CORRUPT, "contexts": CONTEXTS, "bad_names": BAD_NAMES})


# ----------------------------------------------------------------------------- seq

def run_seq(key):
    cx = Ctx(key)
    k, base = key["k"], key["base"]
    pfs = pf_sets(k)[key["pf"]]
    order = [int(c) for c in key["so"]]
    mix = key["whole"] == "same_first"
    mis = [(base + j * STRIDE) % len(POOL) for j in range(k + 1)]  # the last one is saved as a whole file
    allrefs = [ref_of(mi) for mi in mis]
    refs, wref = allrefs[:k], allrefs[k]
    sig = {digest(*r["f"], *r["o"]) for r in allrefs}
    if len(sig) != k + 1 or len(set(pfs)) != k:
        raise RuntimeError("harness: minerals / postfixes of one set are not distinct")
    d = casedir(key)
    A = os.path.join(d, "arch.npz")
    W = A if mix else os.path.join(d, "whole.npz")
    M = P()["Mineral"]
    ops = [("pf", j) for j in order]
    # whole-file save: first operation on the SAME archive (postfixes are then appended to it),
    # or at a rotating position into a separate file
    ops.insert(0 if mix else (order[-1] + sum(order[:2])) % (k + 1), ("whole", k))
    sample = {"case": key, "minerals": [list(POOL[i]) for i in mis], "postfixes": list(pfs),
              "ops": [[w, (None if w == "whole" else pfs[j])] for w, j in ops], "load_orders": len(_orders(k, None))}

    def others_of(r):
        return [o for o in allrefs if o is not r]

    # ---- saves; after every save the whole reached state is compared with the reference
    model = {A: {}, W: {}}  # reference model: file -> {postfix: record} (insertion ordered)
    files = []
    for step, (what, j) in enumerate(ops):
        pf = None if what == "whole" else pfs[j]
        path = W if what == "whole" else A
        vk = {"op": "save", "pf_kind": pfk(pf), "k": k, "n_before": len(model[A]), "whole": key["whole"]}
        ok, _ = call(cx, "save_ok", vk, build(mis[j]).save, path, pf)
        if not ok:
            shutil.rmtree(d, ignore_errors=True)
            return cx.finish(sample)
        cx.res["states"] += 1
        model[path][pf] = allrefs[j]
        if os.path.basename(path) not in files:
            files.append(os.path.basename(path))
        check_listing(cx, d, files, vk)
        for f in sorted(set((A, W))):
            if model[f]:
                check_keys(cx, f, list(model[f]), dict(vk, file=os.path.basename(f)))
                for p, r in model[f].items():
                    ok, m = call(cx, "load_ok", {"loader": "from_file", "target": "fresh", "pf_kind": pfk(p)}, M.from_file, f, p)
                    if ok:
                        compare(cx, m, r, "from_file", "fresh", p, others=others_of(r))

    # ---- every one-shot loader on the final state (saved order), whole file included
    frozen = tree(d)
    for pos, j in enumerate(order):
        loads_of(cx, A, pfs[j], refs[j], others_of(refs[j]), pos, base + pos)
    loads_of(cx, W, None, wref, others_of(wref), 5, base)
    # ---- loads in every order: a chain object that loads postfix after postfix (state
    # leaking from one load into the next is order dependent) and one rotating one-shot loader
    for li, lo in enumerate(_orders(k, None)):
        lorder = [int(c) for c in lo]
        cx.nt.add(digest("seq", mis, pfs, key["so"], lo))
        chain = target(3, 2, refs[lorder[0]], 9)
        for pos, j in enumerate(lorder + [k]):
            r = allrefs[j]
            path, pf = (W, None) if j == k else (A, pfs[j])
            if j != k:
                one_load(cx, (li + pos) % 3, path, pf, r, others_of(r), pos, li + pos)
            nt = chain.n_grains
            mt = [int(chain.phase), int(chain.fabric), int(chain.regime)]
            ok, _ = call(cx, "load_ok", {"loader": "load", "target": "chain", "pf_kind": pfk(pf)}, chain.load, path, pf)
            if ok:
                cx.res["states"] += 1
                compare(cx, chain, r, "load", "chain", pf, n_target=nt, others=others_of(r), meta_target=mt)
        cx.clause("load_readonly")
        if tree(d) != frozen:
            cx.V("load_readonly", {"form": "loading_changed_files", "pf_kind": "str"}, {"load_order": lo})
            frozen = tree(d)
    check_keys(cx, A, list(model[A]), {"op": "after_loads", "pf_kind": "str", "k": k, "n_before": len(model[A]), "whole": key["whole"]})
    shutil.rmtree(d, ignore_errors=True)
    cx.res["notes"]["max_minerals_in_one_archive"] = k + (1 if mix else 0)
    return cx.finish(sample)


RESAVE_EDITS = ["untouched", "replace_last", "replace_first", "reverse", "roll"]


def run_resave(key):
    """A mineral that was LOADED from an archive, whose history is then changed without
    changing the number of snapshots (list entries rebound, not written in place), saved again
    and read back: what comes back is what was saved (seed C17g: a copy-avoiding save path
    that writes the buffer the loaded snapshots are views of)."""
    res = empty_result()
    p = P()
    d = casedir(key)
    b = key["base"]
    ph, fb, rg, n, s = POOL[b]
    src = os.path.join(d, "src.npz")
    dst = os.path.join(d, "dst.npz")
    pf_src = [None, "a", 7][b % 3]
    build(b).save(src, postfix=pf_src)
    fr2, ori2 = contents((b + 5) % len(POOL) if POOL[(b + 5) % len(POOL)][3] == n else b)
    obs = []
    for via in ("from_file", "load"):
        for edit in RESAVE_EDITS:
            if s == 1 and edit in ("reverse", "replace_first"):
                continue
            if via == "from_file":
                m = p["Mineral"].from_file(src, postfix=pf_src)
            else:
                m = target(n, s, ref_of(b), 0.5)
                m.load(src, postfix=pf_src)
            res["n"] += 3
            res["trans"] += 1
            try:
                m.save(dst, postfix=f"first_{via}_{edit}")  # a first save of this same object (seed C17i: stacked arrays cached on the instance)
            except Exception:
                pass
            newf = np.full(n, 1.0 / n) + 0.001 * np.arange(n)
            newo = np.arange(9.0 * n).reshape(n, 3, 3) / (9.0 * n) - 0.25
            if edit == "replace_last":
                m.fractions[-1], m.orientations[-1] = newf, newo
            elif edit == "replace_first":
                m.fractions[0], m.orientations[0] = newf, newo
            elif edit == "reverse":
                m.fractions, m.orientations = m.fractions[::-1], m.orientations[::-1]
            elif edit == "roll":
                m.fractions, m.orientations = m.fractions[1:] + [newf], m.orientations[1:] + [newo]
            want_f = [np.array(x) for x in m.fractions]
            want_o = [np.array(x) for x in m.orientations]
            pf_dst = f"{via}_{edit}"
            res["clauses"]["resave_roundtrip"] = res["clauses"].get("resave_roundtrip", 0) + 1
            k = dict(key, via=via, edit=edit)
            try:
                m.save(dst, postfix=pf_dst)
                back = p["Mineral"].from_file(dst, postfix=pf_dst)
                ok = (
                    len(back.fractions) == len(want_f)
                    and all(np.asarray(a).shape == c.shape and np.asarray(a, float).tobytes() == c.tobytes() for a, c in zip(back.fractions, want_f))
                    and all(np.asarray(a).shape == c.shape and np.asarray(a, float).tobytes() == c.tobytes() for a, c in zip(back.orientations, want_o))
                )
                if not ok:
                    dev = max(float(np.nanmax(np.abs(np.asarray(a) - c))) for a, c in zip(back.orientations, want_o)) if len(back.orientations) == len(want_o) else None
                    res["viol"].append({"clause": "resave_roundtrip", "key": k, "detail": {"max_abs_diff_orientations": dev, "snapshots_back": len(back.fractions), "snapshots_saved": len(want_f)}})
                obs.append(digest(*[np.asarray(x) for x in back.orientations]))
            except Exception as e:
                res["viol"].append({"clause": "resave_roundtrip", "key": dict(k, exc=type(e).__name__), "detail": {"exception": repr(e)[:200]}})
            res["states"] += 1
            if edit != "untouched":
                res["nontrivial"].append(digest(key, via, edit))
    shutil.rmtree(d, ignore_errors=True)
    res["outcomes"] += obs[:10]
    res["obs"] = digest(*obs)
    res["sample"] = {"case": key, "edits": RESAVE_EDITS}
    return res


def run_case(key):
    P()
    if key["kind"] == "resave":
        return run_resave(key)
    if key["kind"] == "single":
        return run_single(key)
    if key["kind"] == "reject":
        return run_reject(key)
    return run_seq(key)
