"""C20 - coordinate conversions and pole-figure primitives (engine A: exhaustive products of
sharp alphabets, every point compared with an independent closed form).

Four parts, one case key family each:

conv     to_spherical / to_cartesian: 26 sign/zero directions x 3 radii + generic points
poles    poles(): orientation alphabet x 6 hkl x 6 reference-axes strings (+ the pinned example)
lambert  lambert_equal_area(): unit vectors (axes, equator, near-pole, generic, rows of the
         orientation alphabet) and disk points lifted to the sphere
density  point_density(): 5 kernels x data sets x grid sizes x scalar weights x axial flag,
         each with data permutations and sign flips of individual data
"""

import itertools
import os
import math

import numpy as np

from mc import alph
from mc.runner import digest, empty_result

PID = "C20"
RULE = (
    "conv: full product {-1,0,1}^3 minus origin (26) x radii {1,1e-3,1e3} plus fixed and seeded generic "
    "points x radii, every point through to_spherical (array call; scalar call re-judged when it differs) "
    "and back through to_cartesian; poles: full product orientation alphabet (408 letters quick) x hkl(6) x "
    "ref_axes(6), once as one (N,3,3) array and once grain by grain, plus the 9 pinned example files; "
    "lambert: all letters of 5 unit-vector blocks and 3 disk blocks x 2 hemispheres x 2 liftings; density: "
    "full product kernel(5) x data set(14) x gridsteps{5,21,101} x weight(5) x axial{T,F} (+ a 40000-point set x "
    "kernel(5) x gridsteps{5,21} x weight(2) x axial{T,F}; + ordinary calls in a fresh interpreter vs the same "
    "calls after calls passing the axial flag as numpy bools / ints), each case = base "
    "call + all distinct data permutations (reverse, rotate, stride) + sign flips of single data (every "
    "datum, all data, even-indexed data; at 101 grid steps in the quick tier the middle datum and the "
    "even-indexed data, permutations reverse and stride). A point is non-trivial for "
    "conv when azimuth != colatitude, for poles when transpose and permutation both matter, for density "
    "when the estimate is finite and non-constant; distinct = distinct (case key, letter)."
)
ASSUMPTIONS = [
    "documented convention (docstrings of to_spherical/to_cartesian): returns (r, phi, theta), phi = longitude "
    "= atan2(y,x) in [0,2pi), theta = colatitude = arccos(z/r) in [0,pi]; to_cartesian takes (phi, theta, r)",
    "poles: rows of an orientation matrix are the crystal axes in the external frame; returned triple = "
    "(component along ref_axes[0], along ref_axes[1], along the remaining axis) as documented "
    "('ref_axes become the horizontal and vertical axes') and pinned by the 9 example_CPO_poles files",
    "round-trip and colatitude tolerances allow the arccos conditioning near the z axis "
    "(1e-12 + 4e-16/max(sin(theta),1e-8), relative to r); everything else 1e-12",
    "density, clause mean1: the un-clipped estimate at a counter is (sum_i w k(|c.d_i|) - 0.5)/units with k, units "
    "taken from pydrex.stats.SPHERICAL_COUNTING_KERNELS (kernel formulas are trusted, the statement does not "
    "define them) on the cylindrical equal-area counter grid mgrid[-pi:pi:G, -1:1:G]; if the reported grid is "
    "not the projection of that grid the clause is skipped (note grid_model_mismatch), never failed",
    "axial=False is evaluated for every clause but sign independence (the statement restricts only that "
    "clause to axial data); set NONAXIAL_VERDICT = False to make those cases observational",
    "numpy elementary functions and math.atan2/acos are trusted",
]
BOUND = {
    "quick": "1 seeded generic rotation (408 orientation letters), 8 seeded conversion points, data sets <= 300 points, "
    "gridsteps <= 101, single sign flips of every datum at 5 and 21 grid steps and of 2 patterns at 101",
    "thorough": "4 seeded generic rotations (696 orientation letters), 64 seeded conversion points, 3 extra seeded data "
    "sets, single sign flips of every datum at every grid size",
}

NONAXIAL_VERDICT = True

TWO_PI = 2.0 * math.pi

# ------------------------------------------------------------------ alphabets

RADII = {"1": 1.0, "1e-3": 1e-3, "1e3": 1e3}
HKL = {"100": [1, 0, 0], "010": [0, 1, 0], "001": [0, 0, 1], "110": [1, 1, 0], "111": [1, 1, 1], "0-11": [0, -1, 1], "-100": [-1, 0, 0], "0-20": [0, -2, 0], "00-0.5": [0.0, 0.0, -0.5], "300": [3, 0, 0]}
REF_AXES = ["xz", "yz", "xy", "zx", "zy", "yx"]
PINNED = [(h, r) for h in ("100", "010", "001") for r in ("xz", "yz", "xy")]
KERNELS = ["linear_inverse_kamb", "square_inverse_kamb", "exponential_kamb", "kamb_count", "schmidt_count"]
KAMB_RADIUS_KERNELS = ("linear_inverse_kamb", "square_inverse_kamb", "kamb_count")
GRIDS = [5, 21, 101]
WEIGHTS = {"1": 1, "2.5": 2.5, "1e-3": 1e-3, "1e3": 1e3, "0": 0.0}
G0 = np.array([0.3, -0.5, 0.7]) / math.sqrt(0.83)  # fixed generic unit vector

FIXED_POINTS = {
    "f0": (0.3, -0.5, 0.7),
    "f1": (-2.1, 0.4, 0.05),
    "f2": (1e-3, 2.0, -3.0),
    "f3": (-0.6, -0.7, -0.1),
    "f4": (5.0, 1e-6, 1.0),
    "f5": (1e-9, -1e-9, 1.0),
    "f6": (-1e-9, 0.0, -2.0),
    "f7": (0.0, -3.0, 4.0),
    "f8": (-4.0, 3.0, 0.0),
    "f9": (0.25, 0.25, -0.25),
}


def _tier():
    return alph.TIER


def sign_points():
    """The 26 sign/zero combinations, fewest non-zero coordinates first."""
    pts = [s for s in itertools.product((0, 1, -1), repeat=3) if s != (0, 0, 0)]
    pts.sort(key=lambda s: (sum(1 for v in s if v), sum(1 for v in s if v < 0)))
    ch = {0: "0", 1: "+", -1: "-"}
    return [("".join(ch[v] for v in s), tuple(float(v) for v in s)) for s in pts]


def generic_points():
    out = list(FIXED_POINTS.items())
    rng = np.random.default_rng(3000 + alph.SEED)
    n = 8 if _tier() == "quick" else 64
    for i in range(n):
        v = rng.normal(size=3) * 10.0 ** rng.uniform(-2, 2)
        out.append((f"s{i}", tuple(float(t) for t in v)))
    return out


def conv_points(block, rad):
    s = RADII[rad]
    base = sign_points() if block == "signs26" else generic_points()
    return [(n, (p[0] * s, p[1] * s, p[2] * s)) for n, p in base]


def unit(v):
    v = np.asarray(v, float)
    return v / np.sqrt((v * v).sum(axis=-1))[..., None]


def lambert_block(block):
    """name -> unit vector, for the unit-vector blocks."""
    out = []
    if block == "signs26":
        for n, p in sign_points():
            out.append((n, unit(p)))
    elif block == "equator":
        for k in range(32):
            a = k * math.pi / 16
            # exact axis directions on the multiples of pi/2
            c, s = math.cos(a), math.sin(a)
            if k % 8 == 0:
                c, s = float(round(c)), float(round(s))
            out.append((f"eq{k:02d}", np.array([c, s, 0.0])))
        for k in range(4):
            a = 0.3 + k * 1.7
            for zn, z in (("+tiny", 1e-17), ("-tiny", -1e-17), ("-0", -0.0)):
                out.append((f"eq_g{k}{zn}", np.array([math.cos(a), math.sin(a), z])))
    elif block == "nearpole":
        for en, e in (("1e-3", 1e-3), ("1e-6", 1e-6), ("1e-8", 1e-8), ("3e-9", 3e-9), ("1e-12", 1e-12), ("1e-16", 1e-16), ("1e-17", 1e-17), ("0", 0.0)):
            for an, a in (("0", 0.0), ("0.7", 0.7), ("pi/2", math.pi / 2), ("2.5", 2.5), ("-2", -2.0)):
                for sn, s in (("N", 1.0), ("S", -1.0)):
                    out.append((f"np{en}@{an}{sn}", np.array([math.sin(e) * math.cos(a), math.sin(e) * math.sin(a), s * math.cos(e)])))
    elif block == "generic":
        for n, p in generic_points():
            out.append((n, unit(p)))
    elif block == "ori_rows":
        for n, m in alph.ORI.items():
            for i in range(3):
                out.append((f"{n}[{i}]", unit(m[i])))
    else:
        raise KeyError(block)
    return out


def disk_block(block):
    out = []
    if block == "disk_polar":
        for rn, r in (("0", 0.0), ("1e-9", 1e-9), ("1e-3", 1e-3), ("0.25", 0.25), ("0.5", 0.5), ("rt.5", math.sqrt(0.5)), ("0.9", 0.9), ("1-1e-9", 1 - 1e-9), ("1", 1.0)):
            for k in range(16):
                a = k * math.pi / 8
                c, s = math.cos(a), math.sin(a)
                if k % 4 == 0:
                    c, s = float(round(c)), float(round(s))
                out.append((f"r{rn}a{k:02d}", (r * c, r * s)))
    elif block == "disk_square":
        for i in range(-10, 11):
            for j in range(-10, 11):
                if i * i + j * j <= 100:
                    out.append((f"q{i:+d}{j:+d}", (i / 10.0, j / 10.0)))
    elif block == "disk_generic":
        rng = np.random.default_rng(3100 + alph.SEED)
        n = 32 if _tier() == "quick" else 256
        for i in range(n):
            r, a = math.sqrt(rng.uniform()), rng.uniform(-math.pi, math.pi)
            out.append((f"d{i}", (r * math.cos(a), r * math.sin(a))))
    else:
        raise KeyError(block)
    return out


LAMBERT_UNIT_BLOCKS = ["signs26", "equator", "nearpole", "generic", "ori_rows"]
LAMBERT_DISK_BLOCKS = ["disk_polar", "disk_square", "disk_generic"]


def data_sets():
    names = ["z1", "x1", "g1", "s1", "mid1", "xz2", "anti2", "dup2", "gen30", "clus30", "anti30", "ori30", "gird30", "gen300"]
    if _tier() != "quick":
        names += ["gen30b", "clus30b", "anti30b"]
    return names


def dataset(name):
    """(n,3) unit vectors.  Seeded sets depend on alph.SEED only."""
    seed = alph.SEED

    def normal(n, k):
        return unit(np.random.default_rng(2000 + 10 * seed + k).normal(size=(n, 3)))

    if name == "z1":
        return np.array([[0.0, 0.0, 1.0]])
    if name == "x1":
        return np.array([[1.0, 0.0, 0.0]])
    if name == "g1":
        return G0[None].copy()
    if name == "s1":
        return normal(1, 1)
    if name == "mid1":
        # midway between the counters of the 5- and 21-step grids (longitude pi/20, height 0.05):
        # 9.4 degrees from the nearest counter of the 21-step grid, outside every 1% (8.1 degree) cap
        q = math.sqrt(1 - 0.05**2)
        return np.array([[q * math.sin(math.pi / 20), q * math.cos(math.pi / 20), 0.05]])
    if name == "xz2":
        return np.array([[1.0, 0.0, 0.0], [0.0, 0.0, 1.0]])
    if name == "anti2":
        return np.array([G0, -G0])
    if name == "dup2":
        return np.array([G0, G0])
    if name in ("gen30", "gen30b"):
        return normal(30, 2 if name == "gen30" else 5)
    if name == "gen300":
        return normal(300, 3)
    if name == "gen40k":
        return normal(40000, 9)
    if name in ("clus30", "clus30b"):
        c = G0 if name == "clus30" else np.array([0.0, 0.0, -1.0])
        return unit(c + 0.1 * np.random.default_rng(2000 + 10 * seed + (4 if name == "clus30" else 6)).normal(size=(30, 3)))
    if name in ("anti30", "anti30b"):
        v = normal(15, 7 if name == "anti30" else 8)
        out = np.empty((30, 3))
        out[0::2], out[1::2] = v, -v
        return out
    if name == "ori30":
        keys = list(alph.ORI)
        return unit(np.array([alph.ORI[keys[(i * 37 + 5) % len(keys)]][0] for i in range(30)]))
    if name == "gird30":
        a = unit(np.cross(G0, [0.0, 0.0, 1.0]))
        b = np.cross(G0, a)
        t = np.arange(30) * (2 * math.pi / 30)
        return unit(np.cos(t)[:, None] * a + np.sin(t)[:, None] * b)
    raise KeyError(name)


def ALPHABETS():
    return {
        "conv_sign_directions": len(sign_points()),
        "conv_generic_points": len(generic_points()),
        "radii": len(RADII),
        "orientations": len(alph.ORI),
        "hkl": len(HKL),
        "ref_axes": len(REF_AXES),
        "pinned_pole_examples": len(PINNED),
        "lambert_unit_vectors": sum(len(lambert_block(b)) for b in LAMBERT_UNIT_BLOCKS),
        "lambert_disk_points": sum(len(disk_block(b)) for b in LAMBERT_DISK_BLOCKS),
        "kernels": len(KERNELS),
        "data_sets": len(data_sets()),
        "gridsteps": len(GRIDS),
        "weights": len(WEIGHTS),
        "axial": 2,
        "closure_generator_applications": alph.CLOSURE_APPS,
    }


_GEO = None
_STATS = None


def warmup():
    global _GEO, _STATS
    from pydrex import geometry, stats

    _GEO, _STATS = geometry, stats


def geo():
    if _GEO is None:
        warmup()
    return _GEO


def stats():
    if _STATS is None:
        warmup()
    return _STATS


def gen_cases(tier, seed):
    keys = []
    for block in ("signs26", "generic"):
        for rad in RADII:
            keys.append(dict(part="conv", pts=block, rad=rad))
    for oset in ("ORI", "singles"):
        for hn in HKL:
            for ra in REF_AXES:
                keys.append(dict(part="poles", set=oset, hkl=hn, ref=ra))
    for hn, ra in PINNED:
        keys.append(dict(part="poles", set="example", hkl=hn, ref=ra))
    for b in LAMBERT_UNIT_BLOCKS + LAMBERT_DISK_BLOCKS:
        keys.append(dict(part="lambert", block=b))
    for form in ("npbool", "int"):
        keys.append(dict(part="history", form=form))
    # simplest data first; grid size innermost so that the expensive 101-step cases are spread
    # evenly over the worker chunks
    for ds in data_sets():
        for kn in KERNELS:
            for w in WEIGHTS:
                for ax in (1, 0):
                    for g in GRIDS:
                        keys.append(dict(part="density", kernel=kn, data=ds, grid=g, w=w, axial=ax))
    # a large data set (n / sigma^2 = 400 at the default smoothing: the exponential kernel's
    # factor f = 2 (1 + n / sigma^2) is beyond the range of exp; seed C20d) on the two small grids
    for kn in KERNELS:
        for w in ("1", "2.5"):
            for ax in (1, 0):
                for g in (5, 21):
                    keys.append(dict(part="density", kernel=kn, data="gen40k", grid=g, w=w, axial=ax))
    return keys


def run_case(key):
    with np.errstate(all="ignore"):
        return {"conv": run_conv, "poles": run_poles, "lambert": run_lambert, "density": run_density, "history": run_history}[key["part"]](key)


HIST_NS = (37, 150)


def history_child(mode):
    """Runs in a FRESH interpreter.  mode 'plain': the ordinary calls only; otherwise the same
    calls preceded (per kernel and data size) by calls that pass the axial flag in the given
    other form.  Prints a digest of every ordinary result."""
    import hashlib

    st = stats()
    forms = {"plain": None, "npbool": (np.True_, np.False_), "int": (1, 0)}[mode]
    out = {}
    with np.errstate(all="ignore"):
        for kernel in KERNELS:
            for n in HIST_NS:
                d = unit(np.random.default_rng(77 + n).normal(size=(n, 3)))
                if forms is not None:
                    for other in forms:
                        try:
                            st.point_density(d[:, 0].copy(), d[:, 1].copy(), d[:, 2].copy(), gridsteps=9, kernel=kernel, axial=other)
                        except Exception:
                            pass
                for axial in (True, False):
                    try:
                        Z = np.asarray(st.point_density(d[:, 0].copy(), d[:, 1].copy(), d[:, 2].copy(), gridsteps=9, kernel=kernel, axial=axial)[2], float)
                        out[f"{kernel}|{n}|{axial}"] = [hashlib.sha1(Z.tobytes()).hexdigest()[:16], int((~np.isfinite(Z)).sum())]
                    except Exception as e:
                        out[f"{kernel}|{n}|{axial}"] = ["exc:" + type(e).__name__, -1]
    return out


def run_history(key):
    """The estimate is a function of its arguments, not of what the process computed before:
    ordinary calls in a fresh interpreter vs the same calls in a fresh interpreter that first
    made calls passing the axial flag as numpy bools / ints (whose own results are not judged).
    Seed C20f: memoised helpers keyed so that True, 1 and numpy.True_ collide."""
    import json
    import subprocess
    import sys

    res = empty_result()
    vals = {}
    for mode in ("plain", key["form"]):
        out = subprocess.run([sys.executable, "-m", "props.c20", mode], capture_output=True, text=True, cwd=os.path.dirname(os.path.dirname(os.path.abspath(__file__))))
        got = None
        for line in out.stdout.splitlines():
            if line.startswith("RESULT "):
                got = json.loads(line[7:])
        if got is None:
            raise RuntimeError("history child failed: " + out.stderr[-1500:])
        vals[mode] = got
    res["n"] = res["trans"] = 2 * len(vals["plain"])
    res["states"] = 2
    for k, v in vals["plain"].items():
        _count(res, "density_independent_of_earlier_calls")
        if vals[key["form"]].get(k) != v:
            kernel, n, axial = k.split("|")
            res["viol"].append({"clause": "density_independent_of_earlier_calls", "key": dict(key, kernel=kernel, n=int(n), axial=axial), "detail": {"fresh": v, "after_other_flag_forms": vals[key["form"]].get(k)}})
    res["nontrivial"].append(digest(key))
    res["outcomes"].append(digest(sorted(vals["plain"].items())))
    res["obs"] = digest(sorted(vals["plain"].items()), sorted(vals[key["form"]].items()))
    res["sample"] = {"case": key, "calls_compared": len(vals["plain"])}
    return res


def _count(res, clause, k=1):
    res["clauses"][clause] = res["clauses"].get(clause, 0) + k


class Groups:
    """Collects failing letters per (clause, form, extra) and emits one violation each: key =
    case key + form + first failing letter; detail = its numbers + how many / which others."""

    def __init__(self, res, key):
        self.res, self.key, self.g = res, key, {}

    def add(self, clause, form, letter, detail, **extra):
        k = (clause, form, tuple(sorted(extra.items())))
        self.g.setdefault(k, []).append((letter, detail))

    def flush(self, letter_field="pt"):
        for (clause, form, extra), items in self.g.items():
            k = dict(self.key)
            k.update(dict(extra))
            k["form"] = form
            k[letter_field] = items[0][0]
            d = dict(items[0][1])
            d["n_bad"] = len(items)
            d["bad_letters"] = [n for n, _ in items[:40]]
            self.res["viol"].append({"clause": clause, "key": k, "detail": d})


def same(a, b):
    a, b = np.asarray(a, float), np.asarray(b, float)
    return a.shape == b.shape and bool(np.all((a == b) | (np.isnan(a) & np.isnan(b))))


# ------------------------------------------------------------------ (a) conversions


def wrap(a):
    return (a + math.pi) % TWO_PI - math.pi


def judge_conv(G, name, p, r, ph, th, back, call):
    """Judge one point.  r, ph, th: floats returned by to_spherical; back: 3 floats returned by
    to_cartesian(ph, th, r).  Returns True when the point was fully judged."""
    x, y, z = p
    r_e = math.sqrt(x * x + y * y + z * z)
    rho = math.hypot(x, y)
    lon_e = math.atan2(y, x)
    col_e = math.atan2(rho, z)  # well-conditioned colatitude, == arccos(z/r) mathematically
    tcond = 1e-12 + 4e-16 / max(rho / r_e, 1e-8)
    saz = (0.0 if y == 0 else math.copysign(1.0, y)) * math.acos(max(-1.0, min(1.0, x / rho))) if rho > 0 else float("nan")
    # (arccos(x/rho) is ill-conditioned next to the x axis: allow for that when recognising the form)
    theta_is_saz = math.isfinite(th) and rho > 0 and abs(th - saz) <= 1e-12 + 4e-16 / max(abs(y) / rho, 1e-8)
    obs = dict(point=[x, y, z], r=r, phi=ph, theta=th, expected_phi=lon_e % TWO_PI, expected_theta=col_e)

    ok = math.isfinite(r) and abs(r - r_e) <= 1e-13 * r_e
    if not ok:
        G.add("conv_radius", "other", name, obs, call=call)
    if rho > 0:
        if not (math.isfinite(ph) and abs(wrap(ph - lon_e)) <= 1e-12):
            G.add("conv_longitude", "other", name, obs, call=call)
        elif not (-1e-12 <= ph <= TWO_PI + 1e-12):  # documented [0, 2pi), to rounding (2pi == 0)
            form = "atan2_range_(-pi,pi]_instead_of_documented_[0,2pi)" if (ph < 0 and abs(ph - lon_e) <= 1e-12) else "other"
            G.add("conv_longitude_range", form, name, obs, call=call)
    if not (math.isfinite(th) and abs(th - col_e) <= tcond):
        if rho == 0 and math.isnan(th):
            form = "nan_on_z_axis"
        elif theta_is_saz:
            form = "returns_signed_azimuth_instead_of_colatitude"
        else:
            form = "other"
        G.add("conv_colatitude", form, name, obs, call=call)
    err = max(abs(b - c) for b, c in zip(back, p)) if all(math.isfinite(b) for b in back) else float("inf")
    if not err <= r_e * tcond:
        # does the documented inverse applied to the documented angles give the point back?  then
        # to_cartesian is consistent and the failure is to_spherical's colatitude alone
        fix = [float(v[0]) for v in geo().to_cartesian(ph if math.isfinite(ph) else lon_e, col_e, r)]
        repaired = max(abs(b - c) for b, c in zip(fix, p)) <= r_e * 1e-12
        if rho == 0 and math.isnan(th) and repaired:
            form = "nan_on_z_axis"
        elif theta_is_saz and repaired:
            form = "follows_from_signed_azimuth_instead_of_colatitude"
        else:
            form = "other"
        d = dict(obs)
        d.update(back=list(back), max_abs_error=err, tol=r_e * tcond)
        G.add("conv_roundtrip", form, name, d, call=call)


def run_conv(key):
    res = empty_result()
    g = geo()
    pts = conv_points(key["pts"], key["rad"])
    G = Groups(res, key)
    P = np.array([p for _, p in pts])
    obs_parts = []

    # to_cartesian alone against the documented closed form, on independently computed angles
    for name, p in pts:
        x, y, z = p
        r_e, rho = math.sqrt(x * x + y * y + z * z), math.hypot(x, y)
        lon, col = math.atan2(y, x) % TWO_PI, math.atan2(rho, z)
        out = g.to_cartesian(lon, col, r_e)
        res["n"] += 1
        _count(res, "conv_to_cartesian")
        obs_parts.append(np.array([np.asarray(v, float).ravel() for v in out]))
        try:
            c = [float(np.asarray(v).ravel()[0]) for v in out]
            bad = len(out) != 3 or max(abs(a - b) for a, b in zip(c, p)) > 1e-12 * r_e
        except Exception:
            c, bad = None, True
        if bad:
            expect = [r_e * math.sin(col) * math.cos(lon), r_e * math.sin(col) * math.sin(lon), r_e * math.cos(col)]
            G.add("conv_to_cartesian", "other", name, dict(phi=lon, theta=col, r=r_e, got=c, expected=expect))

    # array call
    out = g.to_spherical(P[:, 0], P[:, 1], P[:, 2])
    res["n"] += 1
    _count(res, "conv_shape")
    shp_ok = isinstance(out, tuple) and len(out) == 3 and all(np.shape(v) == (len(pts),) for v in out)
    if not shp_ok:
        res["viol"].append({"clause": "conv_shape", "key": dict(key, form="not_(r,phi,theta)_arrays"), "detail": {"shapes": [list(np.shape(v)) for v in out]}})
        res["obs"] = digest(*obs_parts)
        return res
    R, PH, TH = (np.asarray(v, float) for v in out)
    back = g.to_cartesian(PH, TH, R)
    res["n"] += 1
    B = np.array([np.asarray(v, float) for v in back]).T
    obs_parts += [R, PH, TH, B]
    for i, (name, p) in enumerate(pts):
        for c in ("conv_radius", "conv_colatitude", "conv_roundtrip"):
            _count(res, c)
        if math.hypot(p[0], p[1]) > 0:
            _count(res, "conv_longitude")
            _count(res, "conv_longitude_range")
        judge_conv(G, name, p, float(R[i]), float(PH[i]), float(TH[i]), [float(v) for v in B[i]], "array")
        # scalar call: judged again only if it differs from the array call
        s = g.to_spherical(*p)
        sb = g.to_cartesian(s[1], s[2], s[0])
        res["n"] += 2
        sv = [float(np.asarray(v).ravel()[0]) for v in s]
        sbv = [float(np.asarray(v).ravel()[0]) for v in sb]
        obs_parts.append(np.array(sv + sbv))
        if not (same(sv, [R[i], PH[i], TH[i]]) and same(sbv, B[i])):
            res["notes"]["conv_scalar_call_differs_from_array_call"] = res["notes"].get("conv_scalar_call_differs_from_array_call", 0) + 1
            judge_conv(G, name, p, sv[0], sv[1], sv[2], sbv, "scalar")
        x, y, z = p
        rho = math.hypot(x, y)
        if rho > 0 and abs(wrap(math.atan2(y, x) - math.atan2(rho, z))) > 1e-6:
            res["nontrivial"].append(digest("conv", key["rad"], name))
        res["outcomes"].append(digest(np.round([PH[i], TH[i]], 9)))
    # whole-number points handed over as int64 arrays / Python ints are the same points
    if np.array_equal(P, np.rint(P)):
        Pi = P.astype(np.int64)
        # narrow integer types whose squares overflow (int16 from |x| = 182, int32 from 46341)
        for dt, mult in ((np.int16, 1), (np.int32, 100), (np.int32, 1)):
            Pn = Pi * mult
            if np.abs(Pn).max() > np.iinfo(dt).max:
                continue
            _count(res, "conv_dtype_irrelevant")
            res["n"] += 1
            try:
                on = [np.asarray(v, float) for v in g.to_spherical(Pn[:, 0].astype(dt), Pn[:, 1].astype(dt), Pn[:, 2].astype(dt))]
                of = [np.asarray(v, float) for v in g.to_spherical(Pn[:, 0].astype(float), Pn[:, 1].astype(float), Pn[:, 2].astype(float))]
                if not all(same(a_, b_) for a_, b_ in zip(on, of)):
                    res["viol"].append({"clause": "conv_dtype_irrelevant", "key": dict(key, form="narrow_int_input_differs_from_float_input", dtype=np.dtype(dt).name, mult=mult), "detail": {"r_int": on[0].tolist()[:6], "r_float": of[0].tolist()[:6]}})
            except Exception as e:
                res["viol"].append({"clause": "conv_dtype_irrelevant", "key": dict(key, form="raises_" + type(e).__name__, dtype=np.dtype(dt).name), "detail": {"exception": repr(e)[:200]}})
        _count(res, "conv_dtype_irrelevant", 2)
        res["n"] += 2
        try:
            oi = [np.asarray(v, float) for v in g.to_spherical(Pi[:, 0], Pi[:, 1], Pi[:, 2])]
            si = [[float(np.asarray(v).ravel()[0]) for v in g.to_spherical(int(a), int(b), int(c))] for a, b, c in Pi]
            ok = all(same(a, b) for a, b in zip(oi, (R, PH, TH))) and all(same(si[i], [R[i], PH[i], TH[i]]) for i in range(len(pts)))
            if not ok:
                res["viol"].append({"clause": "conv_dtype_irrelevant", "key": dict(key, form="int_input_differs_from_float_input"), "detail": {"int_array": [v.tolist()[:6] for v in oi], "float_array": [R.tolist()[:6], PH.tolist()[:6], TH.tolist()[:6]]}})
        except Exception as e:
            res["viol"].append({"clause": "conv_dtype_irrelevant", "key": dict(key, form="raises_" + type(e).__name__), "detail": {"exception": repr(e)[:200]}})
    G.flush()
    res["states"] = len(pts)
    res["trans"] = 3 * len(pts) + 2
    res["obs"] = digest(*obs_parts)
    res["sample"] = {"case": key, "points": len(pts), "first": [pts[0][0], list(pts[0][1])]}
    return res


# ------------------------------------------------------------------ (b) poles


def poles_direction(A, hkl, transpose=True):
    """Unit crystal direction hkl in the external frame: sum_i h_i * (crystal axis i) with crystal
    axis i = row i of the orientation matrix (A^T.h); transpose=False gives the wrong A.h."""
    h = [float(v) for v in hkl]
    d = np.zeros((len(A), 3))
    for i in range(3):
        d += h[i] * (A[:, i, :] if transpose else A[:, :, i])
    return d / np.sqrt((d * d).sum(axis=1))[:, None]


def documented_order(ra):
    third = (set("xyz") - set(ra)).pop()
    return ["xyz".index(ra[0]), "xyz".index(ra[1]), "xyz".index(third)]


def judge_poles(G, res, names, A, hn, ra, out):
    n = len(A)
    _count(res, "poles_shape")
    if not (isinstance(out, tuple) and len(out) == 3 and all(np.shape(v) == (n,) for v in out)):
        G.add("poles_shape", "not_three_length_N_arrays", names[0], {"shapes": [list(np.shape(v)) for v in out]})
        return None
    got = np.array([np.asarray(v, float) for v in out]).T  # (n,3) in returned order
    d = poles_direction(A, HKL[hn])
    exp = d[:, documented_order(ra)]
    _count(res, "poles_unit", n)
    nrm = np.sqrt((got * got).sum(axis=1))
    bad = ~(np.abs(nrm - 1) <= 1e-12)
    for i in np.nonzero(bad)[0]:
        G.add("poles_unit", "other", names[i], {"norm": float(nrm[i]), "returned": got[i]})
    _count(res, "poles_value", n)
    err = np.abs(got - exp).max(axis=1)
    bad = ~(err <= 1e-12)
    if bad.any():
        dn = poles_direction(A, HKL[hn], transpose=False)[:, documented_order(ra)]
        for i in np.nonzero(bad)[0]:
            form = "other"
            if np.abs(got[i] - dn[i]).max() <= 1e-12:
                form = "no_transpose_(A.h_instead_of_A^T.h)"
            else:
                for perm in itertools.permutations(range(3)):
                    if np.abs(got[i] - d[i, list(perm)]).max() <= 1e-12:
                        form = "components_in_order_" + "".join("xyz"[j] for j in perm)
                        break
            G.add("poles_value", form, names[i], {"returned": got[i], "expected": exp[i], "orientation": A[i]})
    return got, d


def run_poles(key):
    res = empty_result()
    g = geo()
    hn, ra = key["hkl"], key["ref"]
    hkl = list(HKL[hn])
    G = Groups(res, key)
    obs_parts = []
    if key["set"] == "example":
        from pydrex import io as _io

        base = _io.data("outputs")
        A = np.load(base / "example_CPO_resampled.npz")["orientations"]
        names = [f"ex{i}" for i in range(len(A))]
        out = g.poles(A, hkl=hkl, ref_axes=ra)
        res["n"] += 1
        j = judge_poles(G, res, names, A, hn, ra, out)
        pinned = np.load(base / f"example_CPO_poles_{hn}{ra}.npz")
        P = np.array([pinned["xvals"], pinned["yvals"], pinned["zvals"]]).T
        exp = poles_direction(A, hkl)[:, documented_order(ra)]
        if np.abs(P - exp).max() > 1e-12:
            # the oracle itself contradicts the pinned documented examples: harness error, not a verdict
            raise RuntimeError(f"poles oracle disagrees with pinned example {hn}{ra}: {np.abs(P - exp).max()}")
        if j is not None:
            obs_parts.append(j[0])
            _count(res, "poles_pinned", len(A))
            err = np.abs(j[0] - P).max(axis=1)
            for i in np.nonzero(~(err <= 1e-12))[0]:
                G.add("poles_pinned", "differs_from_stored_example", names[i], {"returned": j[0][i], "stored": P[i]})
            res["outcomes"].append(digest(np.round(j[0], 9)))
        res["states"] = len(A)
        res["trans"] = 1
    else:
        names = list(alph.ORI)
        A = np.array([alph.ORI[k] for k in names])
        if key["set"] == "ORI":
            out = g.poles(A.copy(), ref_axes=ra, hkl=hkl)
            res["n"] += 1
            j = judge_poles(G, res, names, A, hn, ra, out)
            # the same orientations in Fortran memory order / as a transposed view: same poles
            for tag, Al in (("fortran", np.asfortranarray(A)), ("tview", np.ascontiguousarray(A.transpose(0, 2, 1)).transpose(0, 2, 1))):
                _count(res, "poles_layout_irrelevant")
                res["n"] += 1
                try:
                    o2 = g.poles(Al, ref_axes=ra, hkl=hkl)
                    if not all(np.array_equal(np.asarray(x), np.asarray(y)) for x, y in zip(o2, out)):
                        res["viol"].append({"clause": "poles_layout_irrelevant", "key": dict(key, layout=tag), "detail": {"max_abs_diff": float(max(np.abs(np.asarray(x, float) - np.asarray(y, float)).max() for x, y in zip(o2, out)))}})
                except Exception as e:
                    res["viol"].append({"clause": "poles_layout_irrelevant", "key": dict(key, layout=tag, exc=type(e).__name__), "detail": {"exception": repr(e)[:200]}})
            if j is not None:
                obs_parts.append(j[0])
                for i in range(len(A)):
                    res["outcomes"].append(digest(np.round(j[0][i], 9)))
            res["trans"] = 1
        else:
            for i, nme in enumerate(names):
                out = g.poles(A[i : i + 1].copy(), ref_axes=ra, hkl=hkl)
                res["n"] += 1
                j = judge_poles(G, res, [nme], A[i : i + 1], hn, ra, out)
                if j is not None:
                    obs_parts.append(j[0])
                    res["outcomes"].append(digest(np.round(j[0], 9)))
            res["trans"] = len(names)
        res["states"] = len(names)
        # non-trivial: transpose matters and the three components are distinct
        d = poles_direction(A, hkl)
        dn = poles_direction(A, hkl, transpose=False)
        nt = (np.abs(d - dn).max(axis=1) > 1e-6) & (np.abs(d[:, 0] - d[:, 1]) > 1e-6) & (np.abs(d[:, 1] - d[:, 2]) > 1e-6) & (np.abs(d[:, 0] - d[:, 2]) > 1e-6)
        for i in np.nonzero(nt)[0]:
            res["nontrivial"].append(digest("poles", hn, ra, names[i]))
    G.flush("grain")
    res["obs"] = digest(*obs_parts)
    res["sample"] = {"case": key, "grains": res["states"]}
    return res


# ------------------------------------------------------------------ (c) Lambert


def lift(X, Y, sign, kind):
    """Disk -> sphere.  'unit': the inverse equal-area map onto the unit sphere, z = +-(1 - R^2),
    (x, y) = (X, Y) sqrt(2 - R^2).  'testsuite': the lifting used by tests/test_geometry.py,
    (X, Y, +-(1 - R^2)) (same z and azimuth, not renormalised)."""
    R2 = X * X + Y * Y
    s = math.sqrt(2.0 - R2) if kind == "unit" else 1.0
    return X * s, Y * s, sign * (1.0 - R2)


def judge_lambert(G, name, v, X, Y, call):
    x, y, z = (float(t) for t in v)
    e = 1.0 - abs(z)  # documented squared radius
    rho = math.hypot(x, y)
    det = dict(vector=[x, y, z], X=X, Y=Y, R2=X * X + Y * Y, expected_R2=e)
    if not (math.isfinite(X) and math.isfinite(Y)):
        G.add("lambert_in_disk", "not_finite", name, det, call=call)
        return
    R2 = X * X + Y * Y
    if not R2 <= 1.0 + 1e-12:
        G.add("lambert_in_disk", "outside_closed_unit_disk", name, det, call=call)
    if not abs(R2 - e) <= 1e-12:
        form = "other"
        if abs(R2 - (1.0 + abs(z))) <= 1e-12:
            form = "R2_is_1_plus_|z|"
        elif abs(R2 - (1.0 - z)) <= 1e-12:
            form = "R2_is_1_minus_z_(no_hemisphere_folding)"
        elif abs(R2 - 2.0 * e) <= 1e-12:
            form = "R2_is_2(1-|z|)_(radius_sqrt2_disk)"
        G.add("lambert_radius", form, name, det, call=call)
    if e > 1e-15 and rho > 0:
        R = math.sqrt(R2)
        if not (R > 0 and math.hypot(X / R - x / rho, Y / R - y / rho) <= 1e-12):
            form = "azimuth_plus_pi" if R > 0 and math.hypot(X / R + x / rho, Y / R + y / rho) <= 1e-12 else "other"
            G.add("lambert_azimuth", form, name, det, call=call)
        return True
    return False


def run_lambert(key):
    res = empty_result()
    g = geo()
    G = Groups(res, key)
    obs_parts = []
    if key["block"] in LAMBERT_UNIT_BLOCKS:
        pts = lambert_block(key["block"])
        V = np.array([v for _, v in pts])
        out = g.lambert_equal_area(V[:, 0], V[:, 1], V[:, 2])
        res["n"] += 1
        _count(res, "lambert_shape")
        if not (isinstance(out, tuple) and len(out) == 2 and all(np.shape(t) == (len(pts),) for t in out)):
            res["viol"].append({"clause": "lambert_shape", "key": dict(key, form="not_(X,Y)_arrays"), "detail": {"shapes": [list(np.shape(t)) for t in out]}})
            return res
        X, Y = (np.asarray(t, float) for t in out)
        obs_parts += [X, Y]
        for i, (name, v) in enumerate(pts):
            _count(res, "lambert_in_disk")
            _count(res, "lambert_radius")
            if judge_lambert(G, name, v, float(X[i]), float(Y[i]), "array"):
                _count(res, "lambert_azimuth")
                res["nontrivial"].append(digest("lam", key["block"], name))
            s = g.lambert_equal_area(*[float(t) for t in v])
            res["n"] += 1
            sx, sy = (float(np.asarray(t).ravel()[0]) for t in s)
            obs_parts.append(np.array([sx, sy]))
            if not same([sx, sy], [X[i], Y[i]]):
                res["notes"]["lambert_scalar_call_differs_from_array_call"] = res["notes"].get("lambert_scalar_call_differs_from_array_call", 0) + 1
                judge_lambert(G, name, v, sx, sy, "scalar")
            # lifting the projected point gives back the vector folded onto z >= 0
            _count(res, "lambert_lift_after")
            if math.isfinite(X[i]) and math.isfinite(Y[i]) and X[i] ** 2 + Y[i] ** 2 <= 1 + 1e-12:
                lx, ly, lz = lift(float(X[i]), float(Y[i]), 1.0, "unit")
                rho = math.hypot(v[0], v[1])
                sxy = math.sqrt(max(0.0, 1 - v[2] * v[2])) / rho if rho > 0 else 0.0  # same z, same azimuth, exactly unit
                exp = (v[0] * sxy, v[1] * sxy, abs(v[2]))
                tol = 1e-12 + 4e-16 / max(math.sqrt(max(0.0, 1 - v[2] * v[2])), 1e-8)
                err = max(abs(lx - exp[0]), abs(ly - exp[1]), abs(lz - exp[2]))
                if not err <= tol:
                    G.add("lambert_lift_after", "other", name, dict(vector=list(map(float, v)), lifted=[lx, ly, lz], expected=list(exp), err=err))
            res["outcomes"].append(digest(np.round([X[i], Y[i]], 9)))
        res["states"] = len(pts)
        res["trans"] = len(pts) + 1
    else:
        pts = disk_block(key["block"])
        for kind in ("unit", "testsuite"):
            for sn, sg in (("N", 1.0), ("S", -1.0)):
                L = np.array([lift(p[0], p[1], sg, kind) for _, p in pts])
                out = g.lambert_equal_area(L[:, 0], L[:, 1], L[:, 2])
                res["n"] += 1
                X, Y = (np.asarray(t, float) for t in out)
                obs_parts += [X, Y]
                for i, (name, p) in enumerate(pts):
                    _count(res, "lambert_inverts_lift")
                    R = math.hypot(*p)
                    tol = 1e-12 + 2.3e-16 / max(R, 1e-8)  # z = 1 - R^2 carries an absolute rounding of 1.1e-16
                    err = max(abs(float(X[i]) - p[0]), abs(float(Y[i]) - p[1]))
                    if not err <= tol:
                        G.add(
                            "lambert_inverts_lift",
                            "other",
                            name,
                            dict(disk_point=list(p), lifted=list(map(float, L[i])), X=float(X[i]), Y=float(Y[i]), err=err, tol=tol),
                            lift=kind,
                            hemi=sn,
                        )
                    if R > 1e-6:
                        res["nontrivial"].append(digest("disk", key["block"], name, kind, sn))
                    res["outcomes"].append(digest(np.round([X[i], Y[i]], 9)))
        res["states"] = 4 * len(pts)
        res["trans"] = 4
    G.flush()
    res["obs"] = digest(*obs_parts)
    res["sample"] = {"case": key, "letters": len(pts)}
    return res


# ------------------------------------------------------------------ (d) point density


def counter_grid(G):
    """Assumed counting locations: cylinder grid (lambda, h) lifted by the cylindrical equal-area
    map; and their Lambert projection in closed form."""
    lam, h = np.mgrid[-np.pi : np.pi : G * 1j, -1 : 1 : G * 1j]
    lam, h = lam.ravel(), h.ravel()
    s = np.sqrt(np.maximum(0.0, 1 - h * h))
    C = np.column_stack([s * np.sin(lam), s * np.cos(lam), h])
    q = np.sqrt(np.maximum(0.0, 1 - np.abs(h)))
    return C, q * np.sin(lam), q * np.cos(lam), lam, h


def unclipped_reference(data, G, kernel, w, axial):
    """Un-clipped, un-normalised estimates at the assumed counters with the registry's kernel."""
    lam, h = np.mgrid[-np.pi : np.pi : G * 1j, -1 : 1 : G * 1j]
    xc, yc, zc = geo().to_cartesian(np.pi / 2 - lam.ravel(), np.pi / 2 - np.arcsin(h.ravel()))
    C = np.column_stack([xc, yc, zc])  # bit-identical to the implementation's counters (threshold kernels)
    fn = stats().SPHERICAL_COUNTING_KERNELS[kernel]
    T = np.empty(len(C))
    for i, c in enumerate(C):
        p = np.dot(data, c)
        if axial:
            p = np.abs(p)
        dens, units = fn(p, axial=axial)
        T[i] = (np.sum(dens * w) - 0.5) / units
    return C, T


def variants(n, grid, tier):
    """(name, permutation, sign vector) for the data of size n; permutations all distinct."""
    out = []
    ident = tuple(range(n))
    seen = {ident}
    quick101 = grid >= 101 and tier == "quick"  # budget: fewer variants on the largest grid
    for nm, perm in (
        ("reverse", tuple(reversed(range(n)))),
        ("rotate1", tuple((i + 1) % n for i in range(n))),
        ("stride7", tuple((7 * i + 3) % n for i in range(n)) if math.gcd(7, n) == 1 else ident),
    ):
        if perm not in seen and not (nm == "rotate1" and quick101):
            seen.add(perm)
            out.append((nm, perm, None))
    if n <= 30 and (grid < 101 or tier != "quick"):
        flips = [(f"flip{i}", [i]) for i in range(n)]
    else:
        idx = sorted({n // 2} if quick101 else {0, n // 2, n - 1})
        flips = [(f"flip{i}", [i]) for i in idx]
    if n > 1:
        if not quick101:
            flips.append(("flip_all", list(range(n))))
        flips.append(("flip_even", list(range(0, n, 2))))
    for nm, idx in flips:
        s = np.ones(n)
        s[idx] = -1.0
        out.append((nm, None, s))
    return out


def run_density(key):
    res = empty_result()
    st = stats()
    kernel, G, axial = key["kernel"], key["grid"], bool(key["axial"])
    w = WEIGHTS[key["w"]]
    data = dataset(key["data"])
    n = len(data)
    verdict = axial or NONAXIAL_VERDICT
    viol = res["viol"] if verdict else []
    obs_parts = []

    def V(clause, form, detail, **extra):
        k = dict(key)
        k.update(extra)
        k["form"] = form
        viol.append({"clause": clause, "key": k, "detail": detail})

    def note(name, k=1):
        res["notes"][name] = res["notes"].get(name, 0) + k

    def call(d):
        res["n"] += 1
        try:
            out = st.point_density(d[:, 0].copy(), d[:, 1].copy(), d[:, 2].copy(), gridsteps=G, weights=w, kernel=kernel, axial=axial)
        except Exception as e:
            return e
        return out

    res["states"] = 1
    res["trans"] = 1
    _count(res, "density_call")
    out = call(data)
    if isinstance(out, Exception):
        V("density_call", "raises_" + type(out).__name__, {"exception": repr(out)[:200]})
        res["obs"] = digest("exc", type(out).__name__)
        res["sample"] = {"case": key, "n_data": n}
        return res
    _count(res, "density_shape")
    if not (isinstance(out, tuple) and len(out) == 3 and all(np.shape(t) == (G, G) for t in out)):
        V("density_shape", "not_three_GxG_arrays", {"shapes": [list(np.shape(t)) for t in out]})
        res["obs"] = digest("shape")
        return res
    X, Y, Z = (np.asarray(t, float) for t in out)
    obs_parts += [X, Y, Z]

    # reference (un-clipped) estimates
    C, T = unclipped_reference(data, G, kernel, w, axial)
    Cm, Xe, Ye, lam, h = counter_grid(G)
    m = T.mean()
    normalisable = bool(np.isfinite(T).all() and np.isfinite(m) and m != 0)

    # finite
    _count(res, "density_finite")
    fin = bool(np.isfinite(Z).all())
    if not fin:
        form = "other"
        if kernel == "schmidt_count" and np.all(T == 0):
            form = "schmidt_no_datum_within_1pct_cap_of_any_counter_mean_zero_0/0"
        elif (not axial) and kernel in KAMB_RADIUS_KERNELS and n < 100 and np.isnan(T).all():
            form = "nonaxial_kamb_radius_1-2s2/(n+s2)_negative_for_n<s2_units_nan"
        elif (not axial) and kernel in KAMB_RADIUS_KERNELS and not np.isfinite(T).all():
            form = "nonaxial_kamb_units_not_finite"
        V("density_finite", form, {"n_nonfinite": int((~np.isfinite(Z)).sum()), "grid_points": int(Z.size), "reference_unclipped_mean": float(m) if np.isfinite(m) else repr(m)})
        note("density_nonfinite_cases")
    # grid inside the closed unit disk
    _count(res, "density_grid_in_disk")
    R2 = X * X + Y * Y
    if not (np.isfinite(R2).all() and (R2 <= 1 + 1e-12).all()):
        i = int(np.nanargmax(np.where(np.isfinite(R2), R2, np.inf)))
        V("density_grid_in_disk", "grid_point_outside_closed_unit_disk", {"max_R2": float(np.ravel(R2)[i]), "index": i})
    if fin:
        # non-negative
        _count(res, "density_nonneg")
        if (Z < 0).any():
            V("density_nonneg", "negative_estimate", {"min": float(Z.min())})
        # mean >= 1, and == 1 where nothing was clipped (needs nothing but the output)
        _count(res, "density_mean_ge1")
        mz = float(Z.mean())
        if mz < 1 - 1e-9 or ((Z > 0).all() and abs(mz - 1) > 1e-9):
            V("density_mean_ge1", "grid_mean_below_1_or_unclipped_mean_not_1", {"grid_mean": mz, "n_zero": int((Z == 0).sum())})
        # mean 1 before clipping: output == clip(T / mean(T))
        grid_ok = bool(np.abs(C - Cm).max() <= 1e-12 and np.abs(X.ravel() - Xe).max() <= 1e-12 and np.abs(Y.ravel() - Ye).max() <= 1e-12)
        if not grid_ok:
            note("grid_model_mismatch")
        elif normalisable:
            _count(res, "density_mean1_before_clipping")
            N = T / m
            Zexp = np.where(N < 0, 0.0, N)
            scale = max(1.0, float(np.abs(Zexp).max()))
            err = float(np.abs(Z.ravel() - Zexp).max())
            if (N < 0).any():
                note("density_cases_with_clipping")
            if m < 0:
                note("density_cases_with_negative_unclipped_mean_(inverted_map)")
            if not err <= 1e-9 * scale:
                form = "other"
                zr = Z.ravel()
                for nm, c in (("median", float(np.median(T))), ("max", float(T.max())), ("sum", float(T.sum())), ("1_(not_normalised)", 1.0)):
                    if c != 0 and np.isfinite(c):
                        alt = np.where(T / c < 0, 0.0, T / c)
                        if np.abs(zr - alt).max() <= 1e-9 * max(1.0, float(np.abs(alt).max())):
                            form = "normalised_by_" + nm + "_instead_of_mean"
                            break
                if form == "other":
                    alt = np.abs(N)
                    if np.abs(zr - alt).max() <= 1e-9 * scale:
                        form = "abs_instead_of_clip"
                    elif np.abs(zr - np.where(T < 0, 0.0, T) / np.where(T < 0, 0.0, T).mean()).max() <= 1e-9 * scale:
                        form = "clipped_before_normalising"
                V("density_mean1_before_clipping", form, {"max_abs_diff": err, "unclipped_mean_of_reference": 1.0, "grid_mean_returned": mz, "reference_normaliser": float(m)})
        else:
            note("density_reference_not_normalisable")
        if len(np.unique(np.round(Z, 9))) > 1:
            res["nontrivial"].append(digest("dens", key))
        if axial and G > 1:
            if np.abs(Z - Z[:, ::-1]).max() > 1e-6 * max(1.0, float(Z.max())):
                note("density_upper_and_lower_sheet_differ_at_same_XY_cases")
    res["outcomes"].append(digest(np.round(np.nan_to_num(Z, nan=-1.0, posinf=-2.0, neginf=-3.0), 6)))

    # the caller post-processes the arrays it was handed back IN PLACE (mirrors / rescales the
    # grid, blanks the estimates) and calls again: the second result is the first one again
    # (seed C20h: the returned grid aliases a module-level cache)
    if G <= 21:
        X0, Y0, Z0 = X.copy(), Y.copy(), Z.copy()
        try:
            for t in out:
                arr = np.asarray(t)
                if arr.flags.writeable:
                    arr *= -2.0
            X, Y, Z = X0, Y0, Z0  # (the local names above were views of what was returned)
            res["n"] += 1
            _count(res, "density_independent_of_earlier_calls")
            again = call(data)
            if isinstance(again, Exception) or not all(np.array_equal(np.asarray(a, float), b, equal_nan=True) for a, b in zip(again, (X0, Y0, Z0))):
                V("density_independent_of_earlier_calls", "differs_after_caller_modified_returned_arrays", {"max_R2_now": None if isinstance(again, Exception) else float(np.nanmax(np.asarray(again[0], float) ** 2 + np.asarray(again[1], float) ** 2))})
        except Exception as e:  # read-only results are fine
            note("returned_arrays_not_writeable_or_error:" + type(e).__name__)
        out = (X0, Y0, Z0)

    # the same call again after calls that pass the flag in another truthy / falsy form
    # (see also run_history, which does this from fresh interpreters)
    if G <= 21:
        for other in ((np.True_, 1) if axial else (np.False_, 0)):
            try:
                st.point_density(data[:, 0].copy(), data[:, 1].copy(), data[:, 2].copy(), gridsteps=G, weights=w, kernel=kernel, axial=other)
            except Exception:
                pass
            res["n"] += 2
            _count(res, "density_independent_of_earlier_calls")
            again = call(data)
            same_again = (not isinstance(again, Exception)) and all(np.array_equal(np.asarray(a), np.asarray(b), equal_nan=True) for a, b in zip(again, out))
            if not same_again:
                V("density_independent_of_earlier_calls", "differs_after_call_with_other_flag_form", {"flag_form": repr(other), "n_nonfinite_now": None if isinstance(again, Exception) else int((~np.isfinite(np.asarray(again[2], float))).sum())}, after=type(other).__name__)
                break

    # order and sign independence
    tol = 1e-9 * max(1.0, float(np.abs(Z[np.isfinite(Z)]).max()) if np.isfinite(Z).any() else 1.0)
    first_bad = {}
    nbad = {}
    vlist = variants(n, G, _tier())
    if not np.isfinite(Z).any():
        # nothing but NaN to compare: order/sign independence would be vacuous
        note("density_variants_skipped_all_nan", len(vlist))
        vlist = []
    for nm, perm, sg in vlist:
        if sg is not None and not axial:
            continue
        d = data[list(perm)] if perm is not None else data * sg[:, None]
        clause = "density_order_independent" if perm is not None else "density_sign_independent"
        _count(res, clause)
        res["states"] += 1
        res["trans"] += 1
        o = call(d)
        if isinstance(o, Exception):
            V("density_call", "raises_" + type(o).__name__, {"exception": repr(o)[:200]}, variant=nm)
            continue
        X2, Y2, Z2 = (np.asarray(t, float) for t in o)
        obs_parts.append(Z2)
        okv = Z2.shape == Z.shape and same(np.isnan(Z2), np.isnan(Z)) and same(X2, X) and same(Y2, Y)
        if okv:
            a, b = np.nan_to_num(Z2, nan=0.0, posinf=1e300, neginf=-1e300), np.nan_to_num(Z, nan=0.0, posinf=1e300, neginf=-1e300)
            diff = float(np.abs(a - b).max())
            okv = diff <= tol
        else:
            diff = float("nan")
        if not okv:
            nbad[clause] = nbad.get(clause, 0) + 1
            first_bad.setdefault(clause, (nm, diff))
    for clause, (nm, diff) in first_bad.items():
        form = "estimate_changes_under_" + ("data_permutation" if clause.endswith("order_independent") else "sign_flip_of_datum")
        V(clause, form, {"max_abs_diff": diff, "tol": tol, "n_bad_variants": nbad[clause]}, variant=nm)

    if not verdict:
        note("nonaxial_observed_violations", len(viol))
    res["obs"] = digest(*obs_parts)
    res["sample"] = {"case": key, "n_data": n, "grid_mean": float(np.nanmean(Z)) if np.isfinite(Z).any() else None, "clipped_points": int((Z == 0).sum())}
    return res


if __name__ == "__main__":
    import json
    import sys

    from mc.runner import quiet_pydrex

    alph.configure(int(os.environ.get("VERIF_SEED", "0")), os.environ.get("VERIF_TIER", "quick"))
    import pydrex  # noqa

    quiet_pydrex()
    print("RESULT " + json.dumps(history_child(sys.argv[1])))
