"""C01 - every stored snapshot is a valid texture after any update history (engine B)."""

import itertools

import numpy as np

from mc import alph
from mc.runner import digest, empty_result
from props import _hist as H

PID = "C01"
RULE = (
    "explicit-state BFS on real Mineral objects: roots = fabric(6) x accepted regime(5) x all points "
    "within <=1 deviation of the default over (texture kind(8: one an int64 array, one in Fortran order, one a transposed view), volume vector(3, one an int64 array), n_grains(5: 5,2,3,8,1), "
    "parameter set(14)); update alphabet = 6 flows (simple shear, pure shear, generic 3-D with "
    "vorticity, generic with trace, time-dependent, position-dependent along a pathline) x strain "
    "increment {0.1, 0.5} + rigid-body rotation + zero gradient + shear fading into spin + the other five axis-aligned simple shears + two intervals run backwards in time (22 letters; axis-aligned textures under every shear plane hit the exact-zero slip guards); ALL sequences to depth 2 (quick) / 3 (thorough) from every root. Long "
    "chains: a span of strain 1 split into k in {1,2,5,10,25,50,100} uniform updates and into all 7 "
    "compositions with <=3 parts on a quarter grid. Default-constructed minerals (3500 grains) built "
    "twice per seed. The invariant is evaluated on every stored snapshot after every transition, "
    "earlier snapshots are content-hashed to detect in-place modification. Non-trivial: a "
    "transition that changed the texture (orientations or fractions differ from the previous "
    "snapshot); distinct = distinct reached state (canonical hash)."
)
ASSUMPTIONS = [
    "bound on orthonormality is the one stated in the property: 5e-3 + 1e-3 (N + 2 strain), strain = integral of the largest |principal strain rate|",
    "an update that raises appends nothing and is not expanded (counted in notes.rejected_updates); C07 decides which updates may raise",
    "n_grains <= 8 in histories (3500 for the default-constructed mineral); banded-Jacobian path (n > 4632) outside the bound",
]
BOUND = {"quick": "history depth 2, 22 update letters, <=1 root deviation", "thorough": "history depth 3 over 15 letters from the <=1-deviation roots; depth 2 over 22 letters from the roots with 2 deviations"}
CHUNK = 1


def ALPHABETS():
    return {"update_letters": len(LETTERS), "regimes": len(H.REGIMES), "textures": len(H.TEXTURES), "param_sets": len(H.PRM), "n_grains": len(H.NGRAINS)}


def warmup():
    H.warm()
    # the first 3500-grain update of a process costs ~4 s of CPU (one-off), later ones 0.25 s:
    # pay it once in the parent, before the workers are forked
    a = H.pd().Mineral(seed=7)
    H.update(a, H.params_for(0, "default"), np.eye(3), H.flow("ss_xz"), 0.0, 0.05)


# update alphabet: the 12 shared letters plus a rigid-body rotation (finite L with D = 0)
# and a zero gradient -- both are finite velocity gradients and hit the guards of the
# non-dimensionalisation (found missing by seeded change C01/rigid-rotation-NaN)
LETTERS = H.STEP_LETTERS + [("rigid", 0.5), ("zero", 0.5), ("tospin", 0.5)] + [(f, 0.5) for f in ("ss_xy", "ss_yx", "ss_yz", "ss_zx", "ss_zy")]
# intervals run backwards in time (time_end < time_start)
LETTERS += [("gen", -0.3), ("ss_xz", -0.5)]
GETREG = {
    "disl_yield": lambda t, x: 4 if int(t * 10) % 2 == 0 else 6,
    "disl_then_null": lambda t, x: 4 if t < 0.3 else 7,
    "null_then_disl": lambda t, x: 0 if t < 0.25 else 4,
}
COMPOSITIONS = [(4,), (1, 3), (2, 2), (3, 1), (1, 1, 2), (1, 2, 1), (2, 1, 1)]
CHAIN_K = [1, 2, 5, 10, 25, 50, 100]


def gen_cases(tier, seed):
    keys = H.root_keys(tier, list(H.REGIMES), dev=1)
    for k in keys:
        k["depth"] = 2 if tier == "quick" else 3
    if tier == "thorough":
        # depth 3 from the <=1-deviation roots (over the 15 core letters, see run_case) and
        # depth 2 over all 22 letters from the roots with exactly 2 deviations
        have = {tuple(sorted(k.items())) for k in keys}
        for k in H.root_keys(tier, ["disl", "yield"], dev=2):  # (two-deviation roots: the two dislocation-type regimes)
            k["depth"] = 3
            if tuple(sorted(k.items())) not in have:
                k["depth"] = 2
                keys.append(k)
    # larger aggregates (the shared root axis stops at 8 grains)
    for fab in alph.FABRICS:
        for reg in ("disl", "yield"):
            for ng in (50,) if tier == "quick" else (50, 200, 1000):
                keys.append(dict(part="hist", fab=fab, reg=reg, tex="random", vol="dominant", ng=ng, prm="default", depth=1 if ng >= 200 else 2))
    if tier == "thorough":  # the banded-Jacobian path (n_grains > 4632), once
        keys.append(dict(part="hist", fab="olA", reg="disl", tex="random", vol="uniform", ng=4700, prm="default", depth=1, banded=1))
    # regime supplied by a callable of (t, x): switching between accepted regimes mid-update
    for fab in alph.FABRICS:
        for gr in GETREG:
            keys.append(dict(part="hist", fab=fab, reg="disl", tex="random", vol="geometric", ng=5, prm="default", getreg=gr, depth=2 if tier == "quick" else 3))
    for fab in alph.FABRICS:
        for reg in ("disl", "yield", "diff", "minvisc"):
            for fl in ("ss_xz", "gen", "time", "pos"):
                keys.append(dict(part="chain", fab=fab, reg=reg, flow=fl, tex="random", vol="geometric", ng=8, prm="default"))
    for s in (0, 1, 12345):
        keys.append(dict(part="default", seed=s))
    # a mineral whose (valid) phase is not listed in the assemblage: the update is either
    # rejected (history untouched) or accepted with exactly one new, valid snapshot
    for fab in ("olA", "enAB"):
        for reg in H.REGIMES:
            keys.append(dict(part="absent", fab=fab, reg=reg))
    return keys


def V(res, key, clause, detail, **kw):
    k = dict(key)
    k.update(kw)
    res["viol"].append({"clause": clause, "key": k, "detail": detail})


def classify(key, m):
    """Characterise *how* a texture left the manifold, so that a known finding matches
    only its own wrong form.  For the diffusion-creep regime: does the solver return its
    `deformation_gradient_spin` argument verbatim as the rate of every grain (instead of
    the orientation composed with a skew spin)?"""
    if key.get("reg") != "diff":
        return "other"
    try:
        from props import _rates as R

        ph, fb = alph.FABRICS[key["fab"]]
        S = np.array([[0.3, 1.0, -2.0], [0.5, -0.7, 0.25], [4.0, 0.125, 0.4]])
        L, D = alph.normalised(alph.VG["gen0"])
        dA, df = R.call(1, ph, fb, m.orientations[-1], m.fractions[-1], D, L, spin=S)
        if all(np.array_equal(x, S) for x in dA) and not np.any(df):
            return "diffusion_rate_is_spin_argument_verbatim"
    except Exception:
        pass
    return "other"


def check_transition(res, key, parent, child, n, hist):
    cl = res["clauses"]
    mp, mc = parent.m, child.m
    cl["append_one"] = cl.get("append_one", 0) + 1
    if len(mc.orientations) != len(mp.orientations) + 1 or len(mc.fractions) != len(mp.fractions) + 1:
        V(res, key, "append_one", {"before": len(mp.orientations), "after_o": len(mc.orientations), "after_f": len(mc.fractions)}, hist=hist)
        return
    cl["append_only"] = cl.get("append_only", 0) + 1
    if H.snapshot_hashes(mc)[:-1] != parent.aux["hashes"]:
        V(res, key, "append_only", {"changed": [i for i, (a, b) in enumerate(zip(H.snapshot_hashes(mc)[:-1], parent.aux["hashes"])) if a != b]}, hist=hist)
    cl["snapshot_valid"] = cl.get("snapshot_valid", 0) + 1
    for clause, detail in H.check_snapshot(mc.orientations[-1], mc.fractions[-1], n, child.N, child.strain):
        V(res, key, clause, detail, hist=hist, N=child.N, form=classify(key, mp))
    changed = not (np.array_equal(mc.orientations[-1], mc.orientations[-2]) and np.array_equal(mc.fractions[-1], mc.fractions[-2]))
    if changed:
        res["nontrivial"].append(H.canon(child))
    dev = np.abs(np.einsum("gij,gkj->gik", mc.orientations[-1], mc.orientations[-1]) - np.eye(3)).max()
    if np.isfinite(dev):
        res["notes"]["max_orthonormality_dev"] = max(res["notes"].get("max_orthonormality_dev", 0.0), float(dev))
        if key.get("reg") != "diff":  # margin to the stated bound, outside the known finding
            r = float(dev) / H.ode_bound(child.N, child.strain)
            res["notes"]["max_ratio_orthonormality_dev_to_bound_excl_diffusion"] = max(res["notes"].get("max_ratio_orthonormality_dev_to_bound_excl_diffusion", 0.0), r)


def run_case(key):
    if key["part"] == "absent":
        return run_absent(key)
    if key["part"] == "default":
        return run_default(key)
    res = empty_result()
    ph, fb = alph.FABRICS[key["fab"]]
    n = key["ng"]
    prm = H.params_for(ph, key["prm"])
    m = H.build_mineral(key)
    root = H.State(m, np.eye(3))
    for clause, detail in H.check_snapshot(m.orientations[0], m.fractions[0], n, 0, 0.0):
        V(res, key, "root_" + clause, detail, hist="")
    root.aux["hashes"] = H.snapshot_hashes(m)
    obs = []

    def step(st, lt, t1=None):
        fl = H.flow(lt[0])
        child = st.clone()
        t1 = st.t + lt[1]
        res["n"] += 1
        try:
            kw = {"get_regime": GETREG[key["getreg"]]} if key.get("getreg") else {}
            F = H.update(child.m, prm, child.F, fl, st.t, t1, **kw)
        except Exception as e:
            res["notes"]["rejected_updates"] = res["notes"].get("rejected_updates", 0) + 1
            res["outcomes"].append("exc:" + type(e).__name__)
            if isinstance(e, H.UpdateTimeout):
                # C01 says nothing about run time: a slow update is not a violation, but
                # the exploration of this case ends here (reported in the notes)
                res["notes"]["updates_over_cpu_limit"] = res["notes"].get("updates_over_cpu_limit", 0) + 1
                raise H.StopExploration()
            # a failed update must still not have altered what is stored (append-only)
            if H.snapshot_hashes(child.m) != st.aux["hashes"]:
                V(res, key, "append_only", {"after_exception": type(e).__name__}, hist="/".join(st.hist + [H.letter_name(lt)]))
            return None
        child.F = np.asarray(F)
        child.t = t1
        child.N += 1
        child.strain += fl.strain(st.t, t1)
        child.hist.append(H.letter_name(lt))
        check_transition(res, key, st, child, n, "/".join(child.hist))
        child.aux["hashes"] = H.snapshot_hashes(child.m)
        obs.append(child.aux["hashes"][-1])
        return child

    if key["part"] == "hist":
        letters = LETTERS if n < 1000 else [("ss_xz", 0.1), ("gen", 0.5)]
        if key["depth"] >= 3:
            letters = letters[:15]  # 15 + 225 + 3375 transitions per root
        ns, nt = H.bfs(root, letters, key["depth"], step)
        res["states"], res["trans"] = ns, nt
        if H.LAST["budget_stop"]:
            res["notes"]["cases_cut_at_cpu_budget"] = res["notes"].get("cases_cut_at_cpu_budget", 0) + 1
    else:  # long chains over a span of strain 1 (unit strain rate => time span 1)
        fl = key["flow"]
        nt = 0
        try:
            for k in CHAIN_K:
                st = root
                for i in range(k):
                    st = step(st, (fl, 1.0 / k))
                    nt += 1
                    if st is None:
                        break
            for comp in COMPOSITIONS:
                st = root
                for c in comp:
                    st = step(st, (fl, 0.25 * c))
                    nt += 1
                    if st is None:
                        break
        except H.StopExploration:
            pass
        res["states"], res["trans"] = nt + 1, nt
    res["outcomes"] += obs[:50]
    res["obs"] = digest(*obs)
    res["sample"] = {"case": key, "states": res["states"], "transitions": res["trans"]}
    return res


def run_absent(key):
    res = empty_result()
    pd = H.pd()
    ph, fb = alph.FABRICS[key["fab"]]
    m = H.build_mineral(dict(fab=key["fab"], reg=key["reg"], tex="random", vol="uniform", ng=5, prm="default"))
    prm = H.params_for(1 - ph, "default")  # the assemblage lists only the OTHER phase
    before = (len(m.orientations), len(m.fractions), H.snapshot_hashes(m))
    res["n"] = res["trans"] = 1
    res["states"] = 1
    res["clauses"]["append_one"] = 1
    try:
        H.update(m, prm, np.eye(3), H.flow("gen"), 0.0, 0.3)
        out = "accepted"
    except Exception as e:
        out = "rejected:" + type(e).__name__
    after = (len(m.orientations), len(m.fractions))
    if out == "accepted":
        if after != (before[0] + 1, before[1] + 1):
            V(res, key, "append_one", {"outcome": out, "snapshots_before": before[:2], "snapshots_after": after})
        else:
            for clause, detail in H.check_snapshot(m.orientations[-1], m.fractions[-1], 5, 1, 0.3):
                V(res, key, clause, detail, hist="gen:0.3", N=1)
    elif after != before[:2] or H.snapshot_hashes(m)[: before[0]] != before[2]:
        V(res, key, "append_only", {"outcome": out, "snapshots_before": before[:2], "snapshots_after": after})
    res["nontrivial"].append(digest(key))
    res["outcomes"].append(out)
    res["obs"] = digest(out, after)
    res["sample"] = {"case": key, "outcome": out}
    return res


def run_default(key):
    """Default-constructed mineral: valid, reproducible from its seed, survives one update."""
    res = empty_result()
    pd = H.pd()
    s = key["seed"]
    a = pd.Mineral(seed=s)
    b = pd.Mineral(seed=s)
    res["n"] += 2
    res["states"] = 2
    n = a.n_grains
    res["clauses"]["default_valid"] = 1
    for clause, detail in H.check_snapshot(a.orientations[0], a.fractions[0], n, 0, 0.0):
        V(res, key, "default_" + clause, detail)
    res["clauses"]["seed_reproducible"] = 1
    if not (np.array_equal(a.orientations[0], b.orientations[0]) and np.array_equal(a.fractions[0], b.fractions[0])):
        V(res, key, "seed_reproducible", {})
    if n != pd.DefaultParams().number_of_grains or len(a.orientations) != 1 or len(a.fractions) != 1:
        V(res, key, "default_shape", {"n": n, "len": len(a.orientations)})
    if abs(a.fractions[0][0] - 1.0 / n) > 1e-15:
        V(res, key, "default_uniform", {"f0": float(a.fractions[0][0])})
    h0 = H.snapshot_hashes(a)
    try:
        F = H.update(a, H.params_for(0, "default"), np.eye(3), H.flow("ss_xz"), 0.0, 0.2)
    except H.UpdateTimeout:
        res["notes"]["updates_over_cpu_limit"] = 1
        res["obs"] = digest(a.orientations[0])
        res["sample"] = {"case": key, "n_grains": n, "note": "update over CPU limit"}
        return res
    res["trans"] = 1
    res["n"] += 1
    if len(a.orientations) != 2 or H.snapshot_hashes(a)[:1] != h0:
        V(res, key, "append_only", {"len": len(a.orientations)})
    for clause, detail in H.check_snapshot(a.orientations[-1], a.fractions[-1], n, 1, 0.2):
        V(res, key, clause, detail, hist="ss_xz:0.2", N=1)
    # the caller overwrites, in place, the initial snapshot of ONE mineral (e.g. to start from
    # a single orientation): minerals built before or after with the same arguments are not
    # affected (seed C01h: initial textures served from a cache keyed on (n_grains, seed))
    res["clauses"]["initial_snapshots_independent"] = 1
    keep = np.array(b.orientations[0])
    try:
        a.orientations[0][...] = -a.orientations[0]  # (a different overwrite on every replay of the case)
        a.fractions[0][...] = 0.0
    except Exception:
        pass
    c_ = pd.Mineral(seed=s)
    res["n"] += 1
    if not (np.array_equal(b.orientations[0], keep) and np.array_equal(c_.orientations[0], keep) and abs(float(np.sum(c_.fractions[0])) - 1.0) < 1e-12):
        V(res, key, "initial_snapshots_independent", {"earlier_mineral_changed": not np.array_equal(b.orientations[0], keep), "later_mineral_changed": not np.array_equal(c_.orientations[0], keep)})
    res["nontrivial"].append(digest("default", s))
    res["obs"] = digest(keep, a.orientations[-1], a.fractions[-1], F)
    res["outcomes"].append(res["obs"])
    res["sample"] = {"case": key, "n_grains": n}
    return res
