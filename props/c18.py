"""C18 - analytic flows are self-consistent and pathlines follow them inside the domain
(engine A: exhaustive product of sharp alphabets; references: Richardson-extrapolated
central differences of the velocity callable, an independent DOP853 backward integration,
numpy's eigvalsh)."""

import itertools
import signal

import numpy as np

from mc import alph
from mc.runner import digest, empty_result, quiet_pydrex

PID = "C18"
RULE = (
    "Jacobian clause: full product flow(3) x ordered axis pair(6) x parameter letters (strain rate / "
    "edge velocity x edge length / plate speed: default, small, large, negative, seed-derived generic) x "
    "domain letters x interior 7^3 grid (cell: includes the cell centre; corner: includes the ridge axis "
    "in the symmetric domain, never the singular origin or the surface); one case = one (flow, pair, "
    "parameter, domain) evaluating every grid point: gradient callable vs Richardson-extrapolated central "
    "differences of the velocity callable (convention L_ij = d u_i / d x_j), trace, and the axis anchors "
    "(velocity confined to / dependent on the two named axes only; documented edge / plate velocity along "
    "the first named axis).  Pathline clause: flow(2) x box letters x axis pairs x 10x10 interior grid of "
    "final locations (independent of VERIF_SEED) x max strain x regular_steps; one case = one grid column. "
    "Strain-increment clause: dt letters x scale letters x the shared velocity-gradient alphabet.  A Jacobian "
    "point is non-trivial when the reference Jacobian is non-zero; a pathline is non-trivial when it has >= 3 "
    "stamps and moves by more than 1e-3 of the box; distinct = distinct (case, point) key."
)
ASSUMPTIONS = [
    "scipy solve_ivp(DOP853, rtol 1e-10) and numpy eigvalsh are trusted as references",
    "the velocity callables are smooth on the scale 1e-3 x (cell edge / pi, distance from the corner): "
    "4th-order Richardson differences then carry a relative error < 1e-11",
    "'inside within integration tolerance' is read as 1e-3 x box size, the same accumulated bound as for the "
    "trajectory itself (the solver works at rtol 1e-5 per step and locates the boundary only to one accepted "
    "step); the observed overshoot is reported in the notes (max_outside_over_size)",
    "dx/dt = u(x) is compared (5 percent of the largest speed on the path) only at mid-points further than "
    "1e-3 x size from the box faces: outside the closed box the integrated right-hand side is zero by "
    "construction, so the step that crosses a face has no defined derivative",
    "axis anchors use only what the parameter documentation states (direction of shear velocity; velocity +U "
    "along the horizontal at the centre of the upper cell edge; plate speed along the horizontal on the "
    "upper boundary of the corner flow)",
    "a pathline that needs more than 5000 velocity evaluations (unchanged tree: <= ~220) or 3 s of CPU time "
    "(unchanged tree: ~5 ms) is counted as not returned",
    "the reference integration never uses a velocity evaluated outside the callable's domain (it is repeated with "
    "bounded steps if a trial stage leaves the cell); if it cannot reach rtol 1e-10 within 30000 evaluations "
    "(unchanged tree: <= ~2000) the velocity callable is not smooth along the returned path and the trajectory "
    "clause reports form=reference_not_converged",
    "the default atol=1e-8 of get_pathline is used for every box, including the 1e-3-sized 'tiny' cell of the "
    "thorough tier (there atol is 1e-5 of the box: the strain overshoot reaches 1.29 x requested at max strain 0.1)",
]
BOUND = {
    "quick": "7^3 grid, 1 generic letter per parameter; pathlines: 3 boxes per flow on pair XZ + all 6 pairs on the "
    "unit box, max strain {0.5, 2}, regular_steps {None, 20}",
    "thorough": "11^3 grid, 3 generic letters per parameter; pathlines: 5 boxes per flow x all 6 pairs, max strain "
    "{0.5, 2, 0.1, 5}, regular_steps {None, 20, 1, 100}",
}

AX = {"X": 0, "Y": 1, "Z": 2}  # the check's own axis map (independent of geometry.to_indices2d)
PAIRS = ["XZ", "XY", "YX", "YZ", "ZX", "ZY"]  # default first (the frame the test-suite uses)
DT = [("0", 0.0), ("1e-9", 1e-9), ("0.5", 0.5), ("1", 1.0), ("-1", -1.0), ("1e6", 1e6)]
SI_SCALES = ["1", "1e-15", "1e6"]
RHS_BUDGET = 5000
CPU_BUDGET_S = 3.0  # per pathline (unchanged tree: ~5 ms)
REF_BUDGETS = (30000, 30000, 150000)  # per pass of the reference integration (unchanged tree: <= ~2000)
CM_YR = 1.0 / (100.0 * 365.0 * 86400.0)

# pathline boxes: name -> (flow parameters, (h_min, h_max), (v_min, v_max)); no seeded letters
CELL_BOXES = {
    "unit": (dict(U=1.0, d=2.0), (-1.0, 1.0), (-1.0, 1.0)),  # the whole cell
    "geo": (dict(U=6.3e-10, d=1e5), (-5e4, 5e4), (-5e4, 5e4)),  # the whole cell, SI magnitudes
    "sub": (dict(U=1.0, d=2.0), (-0.5, 0.7), (-0.8, 0.3)),  # faces crossed by the flow
    "quarter": (dict(U=-0.5, d=2.0), (0.0, 1.0), (0.0, 1.0)),  # reversed circulation
    "tiny": (dict(U=1e3, d=1e-3), (-5e-4, 5e-4), (-5e-4, 5e-4)),
}
CORNER_BOXES = {
    "unit": (dict(U=1.0), (0.0, 1.0), (-1.0, 0.0)),
    "geo": (dict(U=2.0 * CM_YR), (0.0, 1e6), (-2e5, 0.0)),  # the box of tests/test_corner_flow_2d.py
    "sym": (dict(U=1.0), (-1.0, 1.0), (-1.0, 0.0)),  # both sides of the ridge
    "deep": (dict(U=1.0), (0.0, 1.0), (-3.0, 0.0)),
    "fast": (dict(U=1e4), (0.0, 2.0), (-1.0, 0.0)),
}
# Jacobian domains of the corner flow: name -> ((h_min, h_max), (v_min, v_max))
CORNER_DOMS = {"unit": ((0.0, 1.0), (-1.0, 0.0)), "geo": ((0.0, 1e6), (-2e5, 0.0)), "sym": ((-1.0, 1.0), (-1.0, 0.0))}
SHEAR_SIZES = {"unit": 1.0, "geo": 2e5}

_V = _P = _U = None


def _mods():
    global _V, _P, _U
    if _V is None:
        from pydrex import pathlines, utils, velocity

        _V, _P, _U = velocity, pathlines, utils
        quiet_pydrex()  # get_pathline logs every pathline at INFO
    return _V, _P, _U


# ------------------------------------------------------------------ alphabets


def _generic(n):
    """n seed-derived generic letters per parameter (the only place VERIF_SEED enters)."""
    rng = np.random.default_rng(1800 + alph.SEED)
    out = []
    for _ in range(n):
        out.append(
            dict(
                rate=float(rng.choice([-1.0, 1.0]) * 10.0 ** rng.uniform(-6, 2)),
                U=float(rng.choice([-1.0, 1.0]) * 10.0 ** rng.uniform(-3, 2)),
                d=float(10.0 ** rng.uniform(-1, 3)),
                plate=float(10.0 ** rng.uniform(-4, 2)),
            )
        )
    return out


def _letters(tier):
    ng = 1 if tier == "quick" else 3
    gen = _generic(ng)
    rate = {"def": 1.0, "small": 1e-15, "large": 1e6, "neg": -2.5e-3}
    U = {"def": 1.0, "small": 6.3e-10, "large": 1e3, "neg": -0.5}
    d = {"def": 2.0, "small": 1e-3, "large": 1e5}
    plate = {"def": 1.0, "small": 2.0 * CM_YR, "large": 1e4, "neg": -0.3}
    for i, g in enumerate(gen):
        rate[f"gen{i}"] = g["rate"]
        U[f"gen{i}"] = g["U"]
        d[f"gen{i}"] = g["d"]
        plate[f"gen{i}"] = g["plate"]
    return dict(rate=rate, U=U, d=d, plate=plate)


def _tier():
    return alph.TIER if alph.TIER in ("quick", "thorough") else "quick"


def _ngrid():
    return 7 if _tier() == "quick" else 11


def _path_axes(tier):
    if tier == "quick":
        return dict(
            boxes=["unit", "geo", "sub"],
            cboxes=["unit", "geo", "sym"],
            all_pairs_on=["unit"],
            strains=[0.5, 2.0],
            steps=[None, 20],
        )
    return dict(
        boxes=list(CELL_BOXES),
        cboxes=list(CORNER_BOXES),
        all_pairs_on=None,
        strains=[0.5, 2.0, 0.1, 5.0],
        steps=[None, 20, 1, 100],
    )


def ALPHABETS():
    lt = _letters(_tier())
    pa = _path_axes(_tier())
    return {
        "flows": 3,
        "axis_pairs": len(PAIRS),
        "shear_rates": len(lt["rate"]),
        "shear_domains": len(SHEAR_SIZES),
        "cell_edge_velocities": len(lt["U"]),
        "cell_edge_lengths": len(lt["d"]),
        "corner_plate_speeds": len(lt["plate"]),
        "corner_domains": len(CORNER_DOMS),
        "jacobian_grid_points": _ngrid() ** 3,
        "pathline_grid": 100,
        "pathline_boxes_cell": len(pa["boxes"]),
        "pathline_boxes_corner": len(pa["cboxes"]),
        "max_strains": len(pa["strains"]),
        "regular_steps": len(pa["steps"]),
        "dt": len(DT),
        "strain_increment_scales": len(SI_SCALES),
        "velocity_gradients": len(alph.VG),
    }


# ------------------------------------------------------------------ enumeration


def gen_cases(tier, seed):
    lt = _letters(tier)
    keys = []
    # Jacobian clause, simplest first: all-default letters for every flow and pair, then deviations
    for pair in PAIRS:
        keys.append(dict(kind="jac", flow="simple_shear_2d", pair=pair, par="def", dom="unit"))
        keys.append(dict(kind="jac", flow="cell_2d", pair=pair, par="Udef_ddef", dom="cell"))
        keys.append(dict(kind="jac", flow="corner_2d", pair=pair, par="def", dom="unit"))
    for pair in PAIRS:
        for r, s in itertools.product(lt["rate"], SHEAR_SIZES):
            k = dict(kind="jac", flow="simple_shear_2d", pair=pair, par=r, dom=s)
            if k not in keys:
                keys.append(k)
        for u, d in itertools.product(lt["U"], lt["d"]):
            k = dict(kind="jac", flow="cell_2d", pair=pair, par=f"U{u}_d{d}", dom="cell")
            if k not in keys:
                keys.append(k)
        for p, dom in itertools.product(lt["plate"], CORNER_DOMS):
            k = dict(kind="jac", flow="corner_2d", pair=pair, par=p, dom=dom)
            if k not in keys:
                keys.append(k)
    # integer-typed end points
    for fl in INT_POINTS:
        keys.append(dict(kind="intpoint", flow=fl))
    # strain-increment clause
    for sc in SI_SCALES:
        keys.append(dict(kind="sinc", scale=sc))
    # pathline clause: one case per grid column
    pa = _path_axes(tier)
    for flow, boxes in (("cell_2d", pa["boxes"]), ("corner_2d", pa["cboxes"])):
        for box in boxes:
            pairs = PAIRS if (pa["all_pairs_on"] is None or box in pa["all_pairs_on"]) else PAIRS[:1]
            for pair in pairs:
                for ix in range(10):
                    keys.append(dict(kind="path", flow=flow, box=box, pair=pair, ix=ix))
    return keys


def warmup():
    V, P, U = _mods()
    x = np.array([0.3, 0.1, -0.2])
    for mk in (lambda: V.simple_shear_2d("X", "Z", 1.0), lambda: V.cell_2d("X", "Z", 1.0, 2.0), lambda: V.corner_2d("X", "Z", 1.0)):
        u, L = mk()
        u(np.nan, x.copy())
        L(np.nan, x.copy())
    U.strain_increment(1.0, np.ascontiguousarray(alph.VG["gen0"]))
    U.strain_increment(np.float64(1.0), np.ascontiguousarray(alph.VG["gen0"]))
    u, L = V.cell_2d("X", "Z", 1.0, 2.0)
    calls = [0]

    def u_counted(t, x):  # compile-only run: must end even if the code under check never terminates
        calls[0] += 1
        if calls[0] > 2000:
            raise _Budget()
        return u(t, x)

    try:
        P.get_pathline(np.array([0.5, 0.0, -0.75]), u_counted, L, np.array([-1.0, 0.0, -1.0]), np.array([1.0, 0.0, 1.0]), 0.5, regular_steps=5)
    except (_Budget, Exception):
        pass  # verdicts are reached in run_path only


# ------------------------------------------------------------------ helpers


def _hv(pair):
    h, v = AX[pair[0]], AX[pair[1]]
    w = ({0, 1, 2} - {h, v}).pop()
    return h, v, w


def _add(res, clause, n=1):
    res["clauses"][clause] = res["clauses"].get(clause, 0) + n


def _note_max(res, name, val):
    res["notes"][name] = max(res["notes"].get(name, 0.0), float(val))


def _richardson(u, x, step):
    """J[i, j] = d u_i / d x_j by (4 D(h/2) - D(h)) / 3 with central differences D."""
    J = np.zeros((3, 3))
    ncall = 0
    for j in range(3):
        d = []
        for hh in (step, step / 2):
            xp = x.copy()
            xm = x.copy()
            xp[j] += hh
            xm[j] -= hh
            # use the representable step
            hr = (xp[j] - xm[j]) / 2
            d.append((np.asarray(u(np.nan, xp)) - np.asarray(u(np.nan, xm))) / (2 * hr))
            ncall += 2
        J[:, j] = (4 * d[1] - d[0]) / 3
    return J, ncall


# ------------------------------------------------------------------ Jacobian clause


def _jac_setup(key):
    """-> (u, L, grids (3 arrays, own axis order h, v, w), length-scale function, parameters)."""
    V, _, _ = _mods()
    lt = _letters(_tier())
    n = _ngrid()
    frac = (np.arange(n) + 0.5) / n
    a, b = key["pair"][0], key["pair"][1]
    flow = key["flow"]
    if flow == "simple_shear_2d":
        rate = lt["rate"][key["par"]]
        S = SHEAR_SIZES[key["dom"]]
        u, L = V.simple_shear_2d(a, b, rate)
        g = -S + 2 * S * frac
        return u, L, (g, g, g), (lambda hh, vv: S), dict(rate=rate, S=S)
    if flow == "cell_2d":
        un, dn = key["par"][1:].split("_d")
        U, d = lt["U"][un], lt["d"][dn]
        u, L = V.cell_2d(a, b, U, d)
        g = -d / 2 + d * frac
        return u, L, (g, g, g), (lambda hh, vv: d / np.pi), dict(U=U, d=d)
    if flow == "corner_2d":
        U = lt["plate"][key["par"]]
        (h0, h1), (v0, v1) = CORNER_DOMS[key["dom"]]
        u, L = V.corner_2d(a, b, U)
        gh = h0 + (h1 - h0) * frac
        gv = v0 + (v1 - v0) * frac
        gw = -(h1 - h0) / 2 + (h1 - h0) * frac
        return u, L, (gh, gv, gw), (lambda hh, vv: float(np.hypot(hh, vv))), dict(U=U, W=h1, H=-v0)
    raise KeyError(flow)


def _form(flow, Lm, J, v, h, scale):
    """Name of the specific wrong relation between gradient Lm and reference Jacobian J (to 1e-9)."""
    if flow == "simple_shear_2d" and np.abs(Lm - 2 * J).max() <= 1e-9 * scale:
        return "L == 2*J"
    if flow == "cell_2d":
        Jx = J.copy()
        Jx[v, h], Jx[v, v] = J[v, v], J[v, h]
        if np.abs(Lm - Jx).max() <= 1e-9 * scale:
            return "vertical_row_exchanged"
    return "other"


def run_jac(key):
    res = empty_result()
    u, L, (gh, gv, gw), ell, prm = _jac_setup(key)
    h, v, w = _hv(key["pair"])
    flow = key["flow"]
    obs = []
    groups = {}  # (clause, form) -> [count, first detail]

    def V(clause, form, detail):
        g = groups.setdefault((clause, form), [0, detail])
        g[0] += 1

    n = len(gh)
    for ih, iv, iw in itertools.product(range(n), repeat=3):
        x = np.zeros(3)
        x[h], x[v], x[w] = gh[ih], gv[iv], gw[iw]
        ln = ell(x[h], x[v])
        ux = np.asarray(u(np.nan, x.copy()), dtype=float)
        Lm = np.asarray(L(np.nan, x.copy()), dtype=float)
        J, nc = _richardson(u, x, 1e-3 * ln)
        res["n"] += nc + 2
        obs += [ux, Lm]
        scale = float(np.abs(J).max() + np.abs(ux).max() / ln)
        pt = dict(point=[ih, iv, iw], x=x, L=Lm, J=J, scale=scale)
        if Lm.shape != (3, 3) or ux.shape != (3,) or not np.isfinite(Lm).all() or not np.isfinite(ux).all() or scale == 0:
            _add(res, "jacobian")
            V("jacobian", "nonfinite_or_shape", pt)
            continue
        form = _form(flow, Lm, J, v, h, scale)
        # gradient == Jacobian
        _add(res, "jacobian")
        err = float(np.abs(Lm - J).max())
        if err > 1e-6 * scale:
            V("jacobian", form, dict(pt, err_over_scale=err / scale))
        # trace free
        _add(res, "trace")
        tr = float(np.trace(Lm))
        if abs(tr) > 1e-9 * scale:
            V("trace", form, dict(pt, trace_over_scale=tr / scale))
        # axis anchors (structure): nothing along / dependent on the unnamed axis
        _add(res, "axes")
        bad = abs(ux[w]) > 0 or np.abs(J[w, :]).max() > 1e-12 * scale or np.abs(J[:, w]).max() > 1e-12 * scale
        if flow == "simple_shear_2d":
            # `direction` = velocity vector direction, `deformation_plane` = direction of the gradient
            off = J.copy()
            off[h, v] = 0.0
            bad = bad or abs(ux[v]) > 0 or np.abs(off).max() > 1e-12 * scale
        if bad:
            V("axes", "structure", dict(pt, u=ux))
        if np.abs(J).max() > 0:
            res["nontrivial"].append(digest(key, ih, iv, iw))
        res["outcomes"].append(digest(np.round(Lm / scale, 6)))
        res["states"] += 1
    # axis anchors (orientation of the first named axis)
    anchor = None
    if flow == "cell_2d":
        xa = np.zeros(3)
        xa[v] = prm["d"] / 2  # centre of the upper edge: velocity +U along the horizontal
        anchor = (xa, prm["U"])
    elif flow == "corner_2d":
        xa = np.zeros(3)
        xa[h] = prm["W"]  # on the upper boundary: the plate moves with plate_speed along the horizontal
        anchor = (xa, prm["U"])
    if anchor is not None:
        xa, Uexp = anchor
        ua = np.asarray(u(np.nan, xa.copy()), dtype=float)
        res["n"] += 1
        obs.append(ua)
        want = np.zeros(3)
        want[h] = Uexp
        _add(res, "axes")
        if not np.isfinite(ua).all() or np.abs(ua - want).max() > 1e-12 * abs(Uexp):
            V("axes", "edge_velocity", dict(x=xa, u=ua, expected=want))
    for (clause, form), (cnt, det) in groups.items():
        k = {kk: vv for kk, vv in key.items() if kk != "kind"}
        k["form"] = form
        res["viol"].append({"clause": clause, "key": k, "detail": dict(det, n_points=cnt, params=prm)})
    res["trans"] = res["states"]
    res["obs"] = digest(*obs)
    res["sample"] = {"case": key, "params": prm, "grid_points": res["states"]}
    return res


# ------------------------------------------------------------------ strain-increment clause


def run_sinc(key):
    _, _, U = _mods()
    res = empty_result()
    s = float(key["scale"])
    obs = []
    for vg, raw in alph.VG.items():
        Lm = np.ascontiguousarray(raw * s, dtype=float)
        rate = float(np.abs(np.linalg.eigvalsh((Lm + Lm.T) / 2)).max())
        res["states"] += 1
        for dn, dt in DT:
            res["n"] += 1
            res["trans"] += 1
            _add(res, "strain_increment")
            k = dict(scale=key["scale"], vg=vg, dt=dn)
            try:
                got = U.strain_increment(dt, Lm.copy())
            except Exception as e:
                res["viol"].append({"clause": "strain_increment", "key": dict(k, exc=type(e).__name__), "detail": {"exception": repr(e)[:200]}})
                continue
            got = float(got)
            obs.append(np.float64(got))
            want = abs(dt) * rate
            if not (abs(got - want) <= 1e-12 * abs(dt) * max(np.abs(Lm).max(), 1e-300)):
                res["viol"].append({"clause": "strain_increment", "key": k, "detail": {"got": got, "expected": want, "L": Lm, "dt": dt}})
            if want > 0:
                res["nontrivial"].append(digest("sinc", key["scale"], vg, dn))
            res["outcomes"].append(digest(round(got / (s * max(abs(dt), 1e-300)), 9)) if dt else "zero")
    res["obs"] = digest(*obs)
    res["sample"] = {"case": key, "gradients": len(alph.VG), "dt": [d for d, _ in DT]}
    return res


# ------------------------------------------------------------------ pathline clause


class _Budget(BaseException):
    pass


def _on_alarm(signum, frame):
    raise _Budget()


class _cpu_limit:
    """Backstop for integrations that never end without calling the counted velocity (a particle
    chattering on a box face): raises _Budget after `seconds` of CPU time of this process."""

    def __init__(self, seconds):
        self.seconds = seconds

    def __enter__(self):
        self.old = signal.signal(signal.SIGVTALRM, _on_alarm)
        signal.setitimer(signal.ITIMER_VIRTUAL, self.seconds)

    def __exit__(self, *exc):
        signal.setitimer(signal.ITIMER_VIRTUAL, 0)
        signal.signal(signal.SIGVTALRM, self.old)
        return False


def _path_setup(key):
    V, _, _ = _mods()
    a, b = key["pair"][0], key["pair"][1]
    if key["flow"] == "cell_2d":
        prm, hr, vr = CELL_BOXES[key["box"]]
        u, L = V.cell_2d(a, b, prm["U"], prm["d"])
        lim = prm["d"] / 2
    else:
        prm, hr, vr = CORNER_BOXES[key["box"]]
        u, L = V.corner_2d(a, b, prm["U"])
        lim = None
    return u, L, prm, hr, vr, lim


def run_path(key):
    from scipy.integrate import solve_ivp

    _, P, U = _mods()
    res = empty_result()
    u, L, prm, hr, vr, lim = _path_setup(key)
    h, v, w = _hv(key["pair"])
    pa = _path_axes(_tier())
    mn = np.zeros(3)
    mx = np.zeros(3)
    mn[h], mx[h] = hr
    mn[v], mx[v] = vr
    size = max(hr[1] - hr[0], vr[1] - vr[0])
    ix = key["ix"]
    obs = []
    base = {kk: vv for kk, vv in key.items() if kk != "kind"}

    def site(iz, ms):
        return f"{key['flow']}:{key['box']}:{ix},{iz}:{ms}"

    calls = [0]

    def u_counted(t, x):
        calls[0] += 1
        if calls[0] > RHS_BUDGET:
            raise _Budget()
        return u(t, x)

    nclip = [0]

    nref = [0]
    ref_budget = [REF_BUDGETS[0]]

    def u_ref(t, y):
        # the independent integration follows the velocity callable itself; stage points are
        # kept inside the callable's domain (the cell raises outside |x| <= d/2)
        nref[0] += 1
        if nref[0] > ref_budget[0]:
            raise _Budget()
        if lim is not None:
            yy = np.clip(y, -lim, lim)
            if np.any(yy != y):
                nclip[0] += 1
            y = yy
        return u(np.nan, np.ascontiguousarray(y))

    def clipbox(p):
        return np.minimum(np.maximum(p, mn), mx)

    for iz in range(10):
        x0 = np.zeros(3)
        x0[h] = hr[0] + (ix + 0.5) / 10 * (hr[1] - hr[0])
        x0[v] = vr[0] + (iz + 0.5) / 10 * (vr[1] - vr[0])
        res["states"] += 1
        for ms, rs in itertools.product(pa["strains"], pa["steps"]):
            k = dict(base, iz=iz, strain=str(ms), steps=str(rs))
            res["n"] += 1
            res["trans"] += 1

            def V(clause, detail, **extra):
                res["viol"].append({"clause": clause, "key": dict(k, **extra), "detail": dict(detail, final_location=x0, box=[mn, mx], params=prm)})

            # ---- a pathline is returned
            _add(res, "returned")
            calls[0] = 0
            try:
                with _cpu_limit(CPU_BUDGET_S):
                    t, f = P.get_pathline(x0.copy(), u_counted, L, mn.copy(), mx.copy(), ms, regular_steps=rs)
            except _Budget:
                obs.append("budget")
                V(
                    "returned",
                    {"why": f"no pathline after {RHS_BUDGET} velocity evaluations / {CPU_BUDGET_S} s of CPU time", "rhs_calls": calls[0]},
                    exc="no_termination",
                )
                res["outcomes"].append("no_termination")
                continue
            except Exception as e:
                obs.append(type(e).__name__)
                res["notes"]["pathline_exceptions"] = res["notes"].get("pathline_exceptions", 0) + 1
                # `site` names the end point independently of axis pair and resampling (the
                # exception is raised inside the integration, before either matters)
                V("returned", {"exception": repr(e)[:200]}, exc=type(e).__name__, site=site(iz, ms))
                res["outcomes"].append("exc:" + type(e).__name__)
                continue
            _note_max(res, "max_rhs_calls", calls[0])
            try:
                t = np.asarray(t, dtype=float)
                ok = t.ndim == 1 and t.size >= 2 and np.isfinite(t).all() and callable(f)
                pos = np.array([np.asarray(f(tt), dtype=float) for tt in t]) if ok else None
                ok = ok and pos.shape == (t.size, 3) and np.isfinite(pos).all()
            except Exception as e:
                ok, pos = False, repr(e)[:200]
            if not ok:
                obs.append("malformed")
                V("returned", {"why": "timestamps / interpolant malformed", "t": t, "pos": pos}, exc="malformed")
                continue
            obs += [t, pos]
            # ---- ends at the requested final location at t = 0
            _add(res, "end")
            end = np.asarray(f(0.0), dtype=float)
            if t[-1] != 0.0 or np.abs(end - x0).max() > 1e-9 * size:
                V("end", {"t_last": t[-1], "x_at_0": end})
            # ---- strictly increasing time stamps
            _add(res, "increasing")
            if not np.all(np.diff(t) > 0):
                i = int(np.argmin(np.diff(t)))
                V("increasing", {"i": i, "t_i": t[i], "t_next": t[i + 1], "n": t.size})
                res["outcomes"].append("not_increasing")
                continue  # the remaining clauses need an ordered time axis
            T = -t[0]
            # ---- inside the box
            _add(res, "inside")
            out = np.maximum(np.maximum(mn - pos, pos - mx).max(axis=1), 0.0)
            _note_max(res, "max_outside_over_size", out.max() / size)
            if out.max() > 1e-3 * size:
                i = int(np.argmax(out))
                V("inside", {"i": i, "t": t[i], "x": pos[i], "outside_over_size": out[i] / size})
            # ---- agrees with an independent backward integration of the velocity callable
            _add(res, "trajectory")
            ref = None
            try:
                for max_step, ref_budget[0] in zip((np.inf, T / 400, T / 4000), REF_BUDGETS):
                    nclip[0] = 0
                    nref[0] = 0
                    ref = solve_ivp(
                        u_ref, [0.0, t[0]], x0.copy(), method="DOP853", rtol=1e-10, atol=1e-12 * size, t_eval=t[::-1], max_step=max_step
                    )
                    if nclip[0] == 0:
                        break
                    # a trial step left the domain of the velocity callable (slow region -> huge
                    # proposed step): repeat with bounded steps so that no clipped value is ever used
                    res["notes"]["ref_retries"] = res["notes"].get("ref_retries", 0) + 1
            except _Budget:
                ref = None
            _note_max(res, "max_ref_rhs_calls", nref[0])
            if ref is None or not ref.success:
                # the velocity callable cannot be integrated to 1e-10 over the returned time span
                # (only possible if it is not smooth along the path, e.g. a singular point or a
                # branch cut inside the box): the pathline cannot follow a flow that has no solution
                V("trajectory", {"why": "independent integration of the velocity callable did not converge", "rhs_calls": nref[0], "t_first": t[0]}, form="reference_not_converged")
            elif nclip[0] or ref.y.shape[1] != t.size:
                raise RuntimeError("reference integration failed: " + str(ref.message) + f" (clipped {nclip[0]})")
            else:
                dev = np.abs(pos - ref.y.T[::-1]).max(axis=1)
                _note_max(res, "max_path_dev_over_size", dev.max() / size)
                if dev.max() > 1e-3 * size:
                    i = int(np.argmax(dev))
                    V("trajectory", {"i": i, "t": t[i], "x": pos[i], "x_ref": ref.y.T[::-1][i], "dev_over_size": dev[i] / size})
            # ---- dx/dt = u(x) at the mid-points (centred difference of the interpolant)
            umax = max(float(np.abs(u(np.nan, clipbox(p))).max()) for p in pos)
            margin = 1e-3 * size
            worst = (0.0, None)
            for i in range(t.size - 1):
                seg = t[i + 1] - t[i]
                a = 0.5 * (t[i] + t[i + 1])
                p = np.asarray(f(a), dtype=float)
                near = p[h] < mn[h] + margin or p[h] > mx[h] - margin or p[v] < mn[v] + margin or p[v] > mx[v] - margin
                if seg < 1e-6 * T or near:
                    res["notes"]["fd_midpoints_skipped"] = res["notes"].get("fd_midpoints_skipped", 0) + 1
                    continue
                dl = min(1e-4 * T, seg / 2)
                fd = (np.asarray(f(a + dl), dtype=float) - np.asarray(f(a - dl), dtype=float)) / (2 * dl)
                e = float(np.abs(fd - np.asarray(u(np.nan, p.copy()))).max())
                _add(res, "derivative")
                if e > worst[0]:
                    worst = (e, dict(i=i, t=a, x=p, fd=fd, u=np.asarray(u(np.nan, p.copy()))))
            if umax > 0:
                _note_max(res, "max_fd_err_over_umax", worst[0] / umax)
            if worst[0] > 5e-2 * umax:
                V("derivative", dict(worst[1], err_over_umax=worst[0] / umax))
            # ---- accumulated tensorial strain <= 1.25 x requested
            _add(res, "strain")
            ts = np.linspace(t[0], 0.0, 257)
            ps = np.asarray(f(ts), dtype=float).T
            rate = np.array([U.strain_increment(1.0, np.ascontiguousarray(L(np.nan, clipbox(p)))) for p in ps])
            eps = float(np.sum(0.5 * (rate[1:] + rate[:-1]) * np.diff(ts)))
            _note_max(res, "max_strain_over_requested", eps / ms)
            if not (eps <= 1.25 * ms):
                V("strain", {"accumulated": eps, "requested": ms, "t_first": t[0]}, form="ratio<=1.3" if eps <= 1.3 * ms else "ratio>1.3", site=site(iz, ms))
            moved = float(np.abs(pos - x0).max())
            if t.size >= 3 and moved > 1e-3 * size:
                res["nontrivial"].append(digest(k))
            res["outcomes"].append(digest(t.size, bool(out.max() > 0), round(eps / ms, 2)))
    res["obs"] = digest(*obs)
    res["sample"] = {"case": key, "params": prm, "box_min": mn, "box_max": mx}
    return res


INT_POINTS = {
    # flow: (constructor args, end point, box min, box max, strain limit)
    "shear": (("simple_shear_2d", ("X", "Z", 1.0)), [3, 0, 2], [0.5, 0.0, 0.5], [4.5, 0.0, 3.5], 5.0),
    "shear_neg": (("simple_shear_2d", ("X", "Z", 1.0)), [1, 0, -2], [-2.5, 0.0, -3.5], [1.5, 0.0, -0.5], 5.0),
    "corner": (("corner_2d", ("X", "Z", 1.0)), [2, 0, -2], [0.0, 0.0, -3.25], [4.5, 0.0, 0.0], 3.0),
    "corner_fast": (("corner_2d", ("X", "Y", 2.5)), [3, -4, 0], [0.0, -6.5, 0.0], [8.5, 0.0, 0.0], 2.0),
    "cell": (("cell_2d", ("X", "Z", 1.0)), [0, 0, 0], [-0.75, 0.0, -0.75], [0.75, 0.0, 0.75], 1.0),
}


def run_intpoint(key):
    """The end point typed with integer literals (an int64 array) in a box whose corners are
    not whole numbers: the same pathline as for the float-typed end point (seed C18g: the box
    corners cast to the dtype of the end point)."""
    V, P, U = _mods()
    res = empty_result()
    (fname, args), x0, mn, mx, ms = INT_POINTS[key["flow"]]
    u, L = getattr(V, fname)(*args)
    mn, mx = np.array(mn), np.array(mx)
    size = float((mx - mn).max())
    outs = {}
    for tag, dt in (("float64", float), ("int64", np.int64)):
        res["n"] += 1
        res["trans"] += 1
        try:
            t, f = P.get_pathline(np.array(x0, dtype=dt), u, L, mn.copy(), mx.copy(), ms, regular_steps=20)
            t = np.asarray(t, float)
            outs[tag] = (t, np.array([np.asarray(f(tt), float) for tt in t]))
        except Exception as e:
            outs[tag] = e
    # the velocity and gradient callables at the integer-typed point itself (seed C18i:
    # output arrays taking the element type of the position array)
    _add(res, "position_dtype_irrelevant")
    try:
        xi, xf = np.array(x0, dtype=np.int64), np.array(x0, dtype=float)
        ui, uf = np.asarray(u(0.0, xi), float), np.asarray(u(0.0, xf), float)
        Li, Lf = np.asarray(L(0.0, xi), float), np.asarray(L(0.0, xf), float)
        if not (np.array_equal(ui, uf, equal_nan=True) and np.array_equal(Li, Lf, equal_nan=True)):
            res["viol"].append({"clause": "position_dtype_irrelevant", "key": dict(key), "detail": {"u_int": ui, "u_float": uf}})
    except Exception as e:
        res["viol"].append({"clause": "position_dtype_irrelevant", "key": dict(key, exc=type(e).__name__), "detail": {"exception": repr(e)[:200]}})
    res["states"] = 2
    _add(res, "end_point_dtype_irrelevant")
    a, b = outs["float64"], outs["int64"]
    if isinstance(a, Exception) or isinstance(b, Exception):
        if type(a) is not type(b):
            res["viol"].append({"clause": "end_point_dtype_irrelevant", "key": dict(key), "detail": {"float64": repr(a)[:150] if isinstance(a, Exception) else "ok", "int64": repr(b)[:150] if isinstance(b, Exception) else "ok"}})
    else:
        same = a[0].shape == b[0].shape and np.abs(a[0] - b[0]).max() <= 1e-9 * max(1.0, np.abs(a[0]).max()) and np.abs(a[1] - b[1]).max() <= 1e-9 * size
        if not same:
            res["viol"].append({"clause": "end_point_dtype_irrelevant", "key": dict(key), "detail": {"t_start_float64": float(a[0][0]), "t_start_int64": float(b[0][0]), "n_float64": int(a[0].size), "n_int64": int(b[0].size)}})
        for tag, (t, pos) in outs.items():
            _add(res, "inside")
            out = np.maximum(np.maximum(mn - pos, pos - mx).max(axis=1), 0.0)
            if out.max() > 1e-3 * size:
                res["viol"].append({"clause": "inside", "key": dict(key, typed=tag), "detail": {"outside_over_size": float(out.max() / size)}})
        res["nontrivial"].append(digest("intpoint", key["flow"]))
        res["outcomes"].append(digest(np.round(a[1], 6)))
    res["obs"] = digest(*[o if isinstance(o, Exception) else o[1] for o in outs.values()]) if not any(isinstance(o, Exception) for o in outs.values()) else digest("exc")
    res["sample"] = {"case": key}
    return res


def run_case(key):
    if key["kind"] == "intpoint":
        return run_intpoint(key)
    if key["kind"] == "jac":
        return run_jac(key)
    if key["kind"] == "sinc":
        return run_sinc(key)
    if key["kind"] == "path":
        return run_path(key)
    raise KeyError(key["kind"])
