"""Shared helpers for the checks on pydrex.core.derivatives (C02, C03, C04, C07)."""

import numpy as np

from mc import alph
from ref import drex_ref

_core = None


def core():
    global _core
    if _core is None:
        from pydrex import core as c

        _core = c
    return _core


def call(regime, phase, fabric, A, f, D, L, p=1.5, n=3.5, lam=5.0, M=125.0, phi=1.0, spin=None):
    """Call the implementation on private copies.  Returns (dA, df); exceptions propagate."""
    A = np.ascontiguousarray(A, dtype=float).copy()
    f = np.ascontiguousarray(f, dtype=float).copy()
    if spin is None:
        spin = np.zeros((3, 3))
    dA, df = core().derivatives(
        regime,
        phase,
        fabric,
        A.shape[0],
        A,
        f,
        np.ascontiguousarray(D, dtype=float).copy(),
        np.ascontiguousarray(L, dtype=float).copy(),
        np.ascontiguousarray(spin, dtype=float).copy(),
        float(p),
        float(n),
        float(lam),
        float(M),
        float(phi),
    )
    return np.asarray(dA), np.asarray(df)


def warm():
    A = np.array([alph.GEN["g0"], alph.GEN["g1"]])
    L, D = alph.normalised(alph.VG["gen0"])
    for ph, fb in alph.FABRICS.values():
        for rg in (4, 6):
            call(rg, ph, fb, A, np.full(2, 0.5), D, L)
    for rg in (0, 1, 7):
        call(rg, 0, 0, A, np.full(2, 0.5), D, L)


def tol_rate(act):
    """Rounding-level tolerance for instantaneous rates (DESIGN 1.9)."""
    return 1e-11 + 1e-13 / np.maximum(act, 1e-300)


def ori_sets():
    names = list(alph.ORI)
    return names, np.array([alph.ORI[k] for k in names])


def ref_rates(*a, **k):
    return drex_ref.rates(*a, **k)
