"""C14 - the M-index is a frame-independent texture-strength scalar in [0, 1]; the batched
variant returns the per-snapshot values in snapshot order for every pool schedule.

Engine A for the scalar clauses; engine C (stateless DFS over ALL completion orders of a
virtual process pool, for every worker count) for the batched variant, bound to the real
multiprocessing.Pool by conformance runs.
"""

import itertools
import math

import numpy as np

from mc import alph
from mc.runner import digest, empty_result

PID = "C14"
RULE = (
    "index clauses: lattice system(6) x orientation-set letters (2, 3, 10, 40 grains; thorough + 200: "
    "single orientation, two orientations, seeded uniform, clustered, girdle, cube rotations) x "
    "EVERY frame rotation of the frame alphabet x grain permutations (all n! for n <= 4, else "
    "reversal / roll / one transposition) x relabellings by the system's own proper rotation group "
    "(all |G|^n assignments for n <= 2, else patterns); theory: every 1-degree bin of every system; "
    "extremes: single-orientation and seeded-uniform families; block-wise listed aggregates of 1030 "
    "(thorough 2000) grains (> 2**19 pairs) under two re-listings. Invariance tolerances count the "
    "pairs whose misorientation angle lies within float32 rounding of a histogram bin edge "
    "(each may legitimately change bins: 1/n_pairs each). batched: stacks of 1..5 snapshots x "
    "worker counts 1..16 x ALL completion orders of the virtual pool, and stacks of 6..16 "
    "snapshots x worker counts 1..16 x all completion orders with <= 3 (thorough: 4 up to 12 snapshots) departures from "
    "in-order completion (thorough: 6 and 7 in full), through pool= and through "
    "the module-level Pool factory; every real-pool run (W = 1..4, external and self-made pool) must equal the model's "
    "behaviour. Non-trivial: >= 3 distinct pair angles / a schedule that is not submission "
    "order; distinct = case key / schedule."
)
ASSUMPTIONS = [
    "reference misorientation angles (float64, own quaternion-free formula, proper rotation groups 1, 2, 222, 32, 422, 622 in the standard setting) are used only to count pairs near a bin edge, never as the expected value",
    "'close to 0 for uniformly random orientations' is decided on a fixed finite family of seeded uniform sets with the loose bounds 0.25 (200 grains) / 0.35 (40 grains): a finite family, not a convergence proof",
    "the virtual pool implements the documented ordering contracts of multiprocessing.Pool (imap: submission order; imap_unordered: completion order; map/starmap: list in submission order)",
]
BOUND = {"quick": "sets <= 40 grains (+ 1030 once per system, permutations only); stacks <= 5 snapshots (all orders), <= 16 (<= 3 deviations); workers 1..16; real-pool conformance W = 1..4", "thorough": "sets <= 200 grains; real-pool conformance W = 1..16"}

SYSTEMS = ["triclinic", "monoclinic", "orthorhombic", "rhombohedral", "tetragonal", "hexagonal"]
_geo = _diag = _stats = None


def mods():
    global _geo, _diag, _stats
    if _geo is None:
        from pydrex import diagnostics, geometry, stats

        _geo, _diag, _stats = geometry, diagnostics, stats
    return _geo, _diag, _stats


def warmup():
    g, d, s = mods()
    A = alph.texture("random", 3)
    for name in SYSTEMS:
        try:
            d.misorientation_index(A, getattr(g.LatticeSystem, name))
        except Exception:
            pass


# ------------------------------------------------------------------ groups


def closure(gens):
    els = [np.eye(3)]
    frontier = [np.eye(3)]
    while frontier:
        nxt = []
        for m in frontier:
            for g in gens:
                p = g @ m
                if not any(np.abs(p - e).max() < 1e-9 for e in els):
                    els.append(p)
                    nxt.append(p)
        frontier = nxt
    return els


def groups():
    z, x = [0, 0, 1], [1, 0, 0]
    r = alph.rot_axis
    return {
        "triclinic": [np.eye(3)],
        "monoclinic": closure([r([0, 1, 0], np.pi)]),
        "orthorhombic": closure([r(z, np.pi), r(x, np.pi)]),
        "rhombohedral": closure([r(z, 2 * np.pi / 3), r(x, np.pi)]),
        "tetragonal": closure([r(z, np.pi / 2), r(x, np.pi)]),
        "hexagonal": closure([r(z, np.pi / 3), r(x, np.pi)]),
    }


GROUP_SIZES = {"triclinic": 1, "monoclinic": 2, "orthorhombic": 4, "rhombohedral": 6, "tetragonal": 8, "hexagonal": 12}


def ref_angles(A, G):
    """Float64 misorientation angles (degrees) of all pairs, minimised over the group."""
    n = len(A)
    out = []
    GG = np.array(G)
    for i, j in itertools.combinations(range(n), 2):
        D = A[i] @ A[j].T
        # angle(S1 D S2^T) ; trace(S1 D S2^T) = trace(S2^T S1 D): enough to scan the group once
        tr = np.einsum("gij,ji->g", GG, D)
        c = np.clip((tr.max() - 1) / 2, -1, 1)
        out.append(np.degrees(np.arccos(c)))
    return np.array(out)


def near_edge(angles):
    """Number of pair angles within float32 rounding of an integer-degree bin edge."""
    th = np.radians(np.maximum(angles, 1e-3))
    margin = 1e-5 + 3 * 2.75e-5 / th  # degrees
    frac = np.abs(angles - np.round(angles))
    return int((frac <= margin).sum())


# ------------------------------------------------------------------ orientation sets

SETS = {
    "single": lambda n: alph.texture("single", n),
    "two": lambda n: np.array([alph.GEN["g0"], alph.GEN["g1"]] * (n // 2 + 1))[:n],
    "random": lambda n: alph.texture("random", n),
    "random2": lambda n: alph.texture("random2", n),
    "cluster": lambda n: alph.texture("cluster", n),
    "girdle": lambda n: alph.texture("girdle", n),
    "aligned": lambda n: alph.texture("aligned", n),
}


def ALPHABETS():
    return {"systems": 6, "sets": len(SETS), "frames": len(alph.FRAME), "max_stack": 5, "workers": 16}


def gen_cases(tier, seed):
    keys = []
    sizes = [2, 3, 10, 40]
    for sysname in SYSTEMS:
        for sname in SETS:
            for n in sizes:
                if sname == "two" and n > 3:
                    continue
                if n == 40 and sname not in ("random", "cluster"):
                    continue
                keys.append(dict(part="index", system=sysname, set=sname, n=n))
        if tier == "thorough":
            keys.append(dict(part="index", system=sysname, set="random", n=200))
        keys.append(dict(part="theory", system=sysname))
        for n in (2, 10, 40) + ((200,) if tier == "thorough" else ()):
            keys.append(dict(part="extreme", system=sysname, kind="single", n=n))
        for n in (40,) + ((200,) if tier == "thorough" else ()):
            for s in ("random", "random2"):
                keys.append(dict(part="extreme", system=sysname, kind=s, n=n))
    # aggregates with more than 2**19 grain pairs, listed block-wise (placed early: the longest cases)
    for sysname in ("triclinic", "orthorhombic") + (("hexagonal",) if tier == "thorough" else ()):
        keys.append(dict(part="large", system=sysname, n=1030, n_random=700))
    if tier == "thorough":
        keys.append(dict(part="large", system="triclinic", n=2000, n_random=1500))
    for N in range(1, 6):
        for via in ("arg", "module"):
            keys.append(dict(part="batched", N=N, via=via))
    # longer stacks (every length up to 16):
    # all completion orders with at most `dev` departures from in-order completion
    # (iterative deviation bounding; seed C14d needs length = k.W with k >= 2, k != W)
    for N in range(6, 17):
        for via in ("arg", "module"):
            keys.append(dict(part="batched", N=N, via=via, dev=3 if (tier == "quick" or N > 12) else 4))
    if tier == "thorough":
        for N in (6, 7):
            for via in ("arg", "module"):
                keys.append(dict(part="batched", N=N, via=via))
    # hidden state: the value for a system must not depend on which systems were evaluated
    # before it in the same process (one fresh interpreter per first system)
    for first in SEQ_SYSTEMS:
        keys.append(dict(part="sequence", first=first))
    for sysname in SEQ_SYSTEMS:
        keys.append(dict(part="opsedit", system=sysname))
    for sysname in ("triclinic", "orthorhombic"):
        keys.append(dict(part="batched_int", system=sysname))
    # default worker count: every answer of the environment for the CPU affinity
    for cpus in (1, 2, 3, 5, 16, 64):
        keys.append(dict(part="default_workers", cpus=cpus, N=3))
    return keys


def V(res, key, clause, detail, **kw):
    k = dict(key)
    k.update(kw)
    res["viol"].append({"clause": clause, "key": k, "detail": detail})


def wrongform_mindex(A, sysname):
    """Float64 restatement of the *defective* algorithm of the pinned tree, used only to
    classify violations (known-finding matching), never as an expected value: symmetry
    operators applied with a quaternion 'product' that lacks the cross term, and the 4x4
    'reflection' matrices applied to the quaternion components."""
    from scipy.spatial.transform import Rotation

    g, d, s = mods()
    system = getattr(g.LatticeSystem, sysname)
    ops = g.symmetry_operations(system)
    q = Rotation.from_matrix(np.asarray(A).copy()).as_quat()
    var = []
    for qq in q:
        vs = []
        for op in ops:
            op = np.asarray(op, float)
            if op.shape == (4, 4):
                vs.append(op @ qq)
            else:
                vs.append(np.array([*(op[-1] * qq[:3] + qq[-1] * op[:3]), op[-1] * qq[-1] - np.dot(op[:3], qq[:3])]))
        var.append(np.array(vs))
    ang = []
    for i, j in itertools.combinations(range(len(q)), 2):
        dots = np.abs(np.clip(var[i] @ var[j].T, -1.0, 1.0))
        ang.append(2 * np.degrees(np.arccos(dots)).min())
    ang = np.array(ang)
    tmax = s._max_misorientation(system)
    with np.errstate(all="ignore"):
        obs, edges = np.histogram(ang, bins=tmax, range=(0, tmax), density=True)
    theory = np.array([s.misorientations_random(edges[i], edges[i + 1], system) for i in range(len(obs))])
    return float((tmax / (2 * len(obs))) * np.sum(np.abs(theory - obs))), near_edge(ang)


def classify(A_list, M_list, sysname):
    """'cross_term_free_symmetry_products' iff every observed value equals the defective
    restatement (up to pairs near a bin edge); else 'other'."""
    try:
        for A, M in zip(A_list, M_list):
            Mw, k = wrongform_mindex(A, sysname)
            npairs = len(A) * (len(A) - 1) // 2
            if np.isnan(M) and np.isnan(Mw):
                continue
            if not abs(M - Mw) <= k / npairs + 1e-6:
                return "other"
        return "cross_term_free_symmetry_products"
    except BaseException:
        return "other"


def mindex(A, sysname):
    g, d, s = mods()
    return float(d.misorientation_index(np.ascontiguousarray(A), getattr(g.LatticeSystem, sysname)))


SEQ_SYSTEMS = ["triclinic", "monoclinic", "orthorhombic", "tetragonal", "hexagonal"]


def seq_child(first):
    """Runs in a FRESH interpreter: evaluate `first`, then every other system, on the same
    two orientation sets; print the values."""
    order = [first] + [x for x in SEQ_SYSTEMS if x != first]
    out = {}
    for sysname in order:
        for sname in ("random", "single"):
            A = SETS[sname](10)
            try:
                out[f"{sysname}|{sname}"] = mindex(A, sysname)
            except BaseException as e:
                out[f"{sysname}|{sname}"] = "exc:" + type(e).__name__
    return out


def run_sequence(key):
    import json
    import os
    import subprocess
    import sys

    res = empty_result()
    out = subprocess.run(
        [sys.executable, "-m", "props.c14", key["first"]],
        capture_output=True,
        text=True,
        cwd=os.path.dirname(os.path.dirname(os.path.abspath(__file__))),
    )
    vals = None
    for line in out.stdout.splitlines():
        if line.startswith("RESULT "):
            vals = json.loads(line[7:])
    if vals is None:
        raise RuntimeError("sequence child failed: " + out.stderr[-1500:])
    res["n"] = res["trans"] = len(vals)
    res["states"] = 1
    for k, v in vals.items():
        # numbers travel to finalize() through the notes (unique names => sum == value)
        res["notes"][f"seqval|first={key['first']}|{k}"] = v if isinstance(v, float) else float("nan")
    res["nontrivial"].append(digest(key))
    res["outcomes"].append(digest(sorted(vals.items())))
    res["obs"] = digest(sorted(vals.items()))
    res["sample"] = {"case": key, "values": vals}
    return res


def run_large(key):
    """More than 2**19 grain pairs (1030 .. grains) in a listing that is NOT exchangeable (a
    block of random orientations followed by a block of one orientation): the index must not
    depend on the order of the listing (seed C14f: pairs processed in batches whose histograms
    are averaged without weights)."""
    from scipy.spatial.transform import Rotation

    res = empty_result()
    n, nr = key["n"], key["n_random"]
    A = np.concatenate([
        Rotation.random(nr, random_state=900 + alph.SEED).as_matrix(),
        np.repeat(alph.GEN["g0"][None], n - nr, axis=0),
    ])
    perms = {"reversed": np.arange(n)[::-1], "stride7": (7 * np.arange(n) + 3) % n if n % 7 else np.roll(np.arange(n), n // 3)}
    base = mindex(A, key["system"])
    res["n"] = 1
    res["states"] = 1
    vals = [base]
    res["clauses"]["range"] = 1
    if not (-1e-3 <= base <= 1 + 1e-3):
        V(res, key, "range", {"M": base})
    g_, d_, s_ = mods()
    res["clauses"]["layout_irrelevant"] = 1
    res["n"] += 1
    mf = float(d_.misorientation_index(np.asfortranarray(A), getattr(g_.LatticeSystem, key["system"])))
    if not abs(mf - base) <= 1e-12:
        V(res, key, "layout_irrelevant", {"M_fortran_order": mf, "M_contiguous": base})
    for nm, p in perms.items():
        m = mindex(A[p], key["system"])
        vals.append(m)
        res["n"] += 1
        res["trans"] += 1
        res["clauses"]["permutation"] = res["clauses"].get("permutation", 0) + 1
        if not abs(m - base) <= 1e-3:
            V(res, key, "permutation", {"M_listed": base, "M_permuted": m}, perm=nm)
        res["nontrivial"].append(digest(key, nm))
    res["outcomes"].append(digest(np.round(vals, 6)))
    res["obs"] = digest(vals)
    res["sample"] = {"case": key, "M": base, "grain_pairs": n * (n - 1) // 2}
    return res


def run_batched_int(key):
    """A stack of axis-aligned textures typed with integer literals (an int64 array): the batched
    variant returns exactly the per-snapshot values (seed C14i: result buffer inheriting the
    dtype of the stack)."""
    res = empty_result()
    g, d, s = mods()
    system = getattr(g.LatticeSystem, key["system"])
    cube = np.array(list(alph.CUBE.values()))
    stack = np.array([np.rint(cube[(np.arange(8) * (3 + 2 * j) + j) % 24]) for j in range(4)]).astype(np.int64)
    direct = np.array([float(d.misorientation_index(stack[i].astype(float), system)) for i in range(len(stack))])
    res["n"] = len(stack)
    for W in (1, 2, 3):
        for via in ("pool", "ncpus"):
            res["n"] += 1
            res["trans"] += 1
            res["clauses"]["batched_order"] = res["clauses"].get("batched_order", 0) + 1
            memo = {}
            try:
                if via == "pool":
                    out = d.misorientation_indices(stack, system, pool=VirtualPool(W, [], memo))
                else:
                    old = d.Pool
                    d.Pool = lambda processes=None, *a, **k: VirtualPool(processes, [], memo)
                    try:
                        out = d.misorientation_indices(stack, system, ncpus=W)
                    finally:
                        d.Pool = old
                out = np.asarray(out, float)
                if out.shape != direct.shape or not np.array_equal(out, direct, equal_nan=True):
                    V(res, key, "batched_order", {"got": out, "expected": direct}, W=W, via=via, form="integer_typed_stack")
            except Exception as e:
                V(res, key, "batched_order", {"exception": type(e).__name__, "msg": str(e)[:200]}, W=W, via=via, form="integer_typed_stack_raises")
    res["states"] = 6
    res["nontrivial"].append(digest(key))
    res["outcomes"].append(digest(direct))
    res["obs"] = digest(direct)
    res["sample"] = {"case": key, "per_snapshot": direct.tolist()}
    return res


def run_opsedit(key):
    """The caller fetches the symmetry operators through the public function, edits the list
    and its arrays in place (they were handed over as the caller's own), and computes the
    index again: same value (seed C14h: the operator table served from a cache)."""
    res = empty_result()
    g, d, s = mods()
    sysname = key["system"]
    A = SETS["random"](12)
    before = mindex(A, sysname)
    res["n"] = 3
    res["states"] = 2
    res["clauses"]["operators_owned_by_caller"] = 1
    try:
        ops = g.symmetry_operations(getattr(g.LatticeSystem, sysname))
        for o in ops:
            try:
                arr = np.asarray(o)
                if isinstance(o, np.ndarray) and o.flags.writeable:
                    o[...] = np.roll(arr, 1, axis=-1) * 0.5
            except Exception:
                pass
        try:
            del ops[1:]
        except Exception:
            pass
    except Exception as e:
        res["notes"]["symmetry_operations_raised:" + type(e).__name__] = 1
    after = mindex(A, sysname)
    same = (after == before) or (np.isnan(after) and np.isnan(before))
    if not same:
        V(res, key, "operators_owned_by_caller", {"M_before": before, "M_after_caller_edited_the_returned_list": after})
    res["nontrivial"].append(digest(key))
    res["outcomes"].append(digest(before))
    res["obs"] = digest(before, after)
    res["sample"] = {"case": key, "M": before}
    return res


def run_case(key):
    if key["part"] == "opsedit":
        return run_opsedit(key)
    if key["part"] == "batched_int":
        return run_batched_int(key)
    if key["part"] == "sequence":
        return run_sequence(key)
    if key["part"] == "large":
        return run_large(key)
    return {"index": run_index, "theory": run_theory, "extreme": run_extreme, "batched": run_batched, "default_workers": run_default_workers}[key["part"]](key)


def run_default_workers(key):
    """misorientation_indices(stack, system) with neither ncpus nor pool: the worker count
    comes from the environment (CPU affinity).  The harness owns that answer and the pool
    factory (which, like multiprocessing.Pool, refuses fewer than 1 process)."""
    import os

    res = empty_result()
    g, d, s = mods()
    N = key["N"]
    system = g.LatticeSystem.triclinic
    stack = np.array([alph.texture(["random", "cluster", "girdle", "random2", "single"][i], 4) for i in range(N)])
    direct = [float(d.misorientation_index(stack[i], system)) for i in range(N)]
    memo, made = {}, []

    def factory(processes=None, *a, **k):
        p = VirtualPool(processes, [], memo)
        made.append(p)
        return p

    old_pool, old_aff = d.Pool, getattr(os, "sched_getaffinity", None)
    d.Pool = factory
    os.sched_getaffinity = lambda pid=0: set(range(key["cpus"]))
    res["n"] = res["states"] = res["trans"] = 1
    res["clauses"]["default_worker_count"] = 1
    try:
        try:
            out = np.asarray(d.misorientation_indices(stack, system), float)
            outcome = "returned"
        except Exception as e:
            out, outcome = None, "raised:" + type(e).__name__
    finally:
        d.Pool = old_pool
        if old_aff is not None:
            os.sched_getaffinity = old_aff
    if out is None:
        V(res, key, "default_worker_count", {"outcome": outcome, "workers_requested": [p.workers for p in made]}, form=outcome)
    elif not np.array_equal(out, np.array(direct)):
        V(res, key, "default_worker_count", {"got": out, "expected": direct}, form="wrong_values")
    res["nontrivial"].append(digest(key))
    res["outcomes"].append(outcome + ":" + ",".join(str(p.workers) for p in made))
    res["obs"] = digest(outcome, out)
    res["sample"] = {"case": key, "outcome": outcome, "workers": [p.workers for p in made]}
    return res


def run_index(key):
    res = empty_result()
    sysname, n = key["system"], key["n"]
    A = SETS[key["set"]](n)
    G = groups()[sysname]
    cl = res["clauses"]
    npairs = n * (n - 1) // 2
    res["n"] += 1
    res["states"] += 1
    try:
        M0 = mindex(A, sysname)
    except Exception as e:
        cl["returns"] = 1
        V(res, key, "returns", {"exception": type(e).__name__, "msg": str(e)[:120]}, exc=type(e).__name__)
        res["obs"] = digest("exc", type(e).__name__)
        res["outcomes"].append("exc:" + type(e).__name__)
        res["sample"] = {"case": key}
        return res
    ang0 = ref_angles(A, G)
    k0 = near_edge(ang0)
    obs = [M0]
    cl["range"] = 1
    if not (-1e-3 <= M0 <= 1 + 1e-3) or not np.isfinite(M0):
        V(res, key, "range", {"M": M0}, form=classify([A], [M0], sysname))

    def cmp(clause, A2, tag, G2=None):
        res["n"] += 1
        res["trans"] += 1
        try:
            M = mindex(A2, sysname)
        except Exception as e:
            V(res, key, clause, {"exception": type(e).__name__}, variant=tag, form="raises")
            return
        obs.append(M)
        k2 = near_edge(ref_angles(A2, G))
        tol = (k0 + k2) / npairs + 1e-9
        cl[clause] = cl.get(clause, 0) + 1
        dev = abs(M - M0)
        res["notes"]["max_dev_" + clause] = max(res["notes"].get("max_dev_" + clause, 0.0), dev)
        if not dev <= tol:
            V(res, key, clause, {"M": M, "M0": M0, "tol": tol, "pairs_near_bin_edge": k0 + k2}, variant=tag, form=classify([A, A2], [M0, M], sysname))

    # permutations
    if n <= 4:
        perms = list(itertools.permutations(range(n)))[1:]
    else:
        perms = [tuple(reversed(range(n))), tuple(np.roll(range(n), 1)), (1, 0) + tuple(range(2, n))]
    for p in perms:
        cmp("permutation", A[list(p)], "perm" + "".join(map(str, p))[:12])
    # frame rotations
    for qn, Q in alph.FRAME.items():
        if qn == "cube00":
            continue
        cmp("frame", np.einsum("gij,kj->gik", A, Q), qn)
    # relabellings by the system's own proper group
    if len(G) > 1:
        if n <= 2:
            assigns = list(itertools.product(range(len(G)), repeat=n))[1:]
        else:
            assigns = [tuple([s] * n) for s in range(1, len(G))] + [tuple((i * 5 + 1) % len(G) for i in range(n)), tuple((i % 2) * (len(G) - 1) for i in range(n))]
        for a in assigns:
            cmp("relabel", np.array([G[s] @ A[i] for i, s in enumerate(a)]), "S" + "".join(f"{s:x}" for s in a)[:12])
    if len(np.unique(np.round(ang0, 3))) >= 3:
        res["nontrivial"].append(digest(key))
    res["outcomes"].append(digest(round(M0, 6)))
    res["obs"] = digest(*obs)
    res["sample"] = {"case": key, "M": M0, "pairs": npairs, "pairs_near_bin_edge": k0}
    return res


def run_theory(key):
    res = empty_result()
    g, d, s = mods()
    sysname = key["system"]
    system = getattr(g.LatticeSystem, sysname)
    tmax = s._max_misorientation(system)
    vals = []
    cl = res["clauses"]
    for lo in range(tmax):
        res["n"] += 1
        try:
            v = float(s.misorientations_random(lo, lo + 1, system))
        except BaseException as e:  # AssertionError included
            V(res, key, "theory_defined", {"exception": type(e).__name__}, bin=lo, exc=type(e).__name__)
            res["obs"] = digest("exc", lo)
            res["states"] = lo
            res["sample"] = {"case": key, "failed_bin": lo}
            return res
        vals.append(v)
    res["states"] = res["trans"] = tmax
    vals = np.array(vals)
    cl["theory_nonneg"] = tmax
    if (vals < -1e-12).any():
        V(res, key, "theory_nonneg", {"min": float(vals.min()), "bin": int(np.argmin(vals))})
    cl["theory_integrates_to_1"] = 1
    tot = float(vals.sum())
    if abs(tot - 1) > 1e-3:
        V(res, key, "theory_integrates_to_1", {"integral": tot}, integral=round(tot, 3))
    res["notes"]["theory_integral_x1000_" + sysname] = int(round(tot * 1000))
    res["nontrivial"].append(digest(key))
    res["outcomes"].append(digest(np.round(vals, 9)))
    res["obs"] = digest(vals)
    res["sample"] = {"case": key, "integral": tot}
    return res


def run_extreme(key):
    res = empty_result()
    sysname, n = key["system"], key["n"]
    A = SETS["single" if key["kind"] == "single" else key["kind"]](n)
    res["n"] = res["states"] = res["trans"] = 1
    try:
        M = mindex(A, sysname)
    except Exception as e:
        V(res, key, "returns", {"exception": type(e).__name__, "msg": str(e)[:120]}, exc=type(e).__name__)
        res["obs"] = digest("exc")
        res["sample"] = {"case": key}
        return res
    if key["kind"] == "single":
        res["clauses"]["single_orientation_close_to_1"] = 1
        if not M >= 0.97:
            V(res, key, "single_orientation_close_to_1", {"M": M})
    else:
        res["clauses"]["uniform_close_to_0"] = 1
        bound = 0.35 if n <= 40 else 0.25
        if not M <= bound:
            V(res, key, "uniform_close_to_0", {"M": M, "bound": bound}, form=classify([A], [M], sysname))
    res["nontrivial"].append(digest(key))
    res["outcomes"].append(digest(round(M, 6)))
    res["obs"] = digest(M)
    res["sample"] = {"case": key, "M": M}
    return res


# ------------------------------------------------------------------ virtual pool (engine C)


class VirtualPool:
    """Tasks are dispatched in submission order to `workers` virtual workers and COMPLETE
    in an order chosen by the explorer (self.choices; beyond the prefix: choice 0)."""

    def __init__(self, workers, choices, memo):
        if workers is not None and int(workers) < 1:
            raise ValueError("Number of processes must be at least 1")  # as multiprocessing.Pool
        self.workers = max(1, int(workers or 1))
        self.choices = list(choices)
        self.points = []  # number of alternatives at every choice point
        self.memo = memo
        self.completion = None
        self.used = []

    def __enter__(self):
        return self

    def __exit__(self, *a):
        return False

    def close(self):
        pass

    def join(self):
        pass

    def terminate(self):
        pass

    def _schedule(self, n):
        nxt, running, order = 0, [], []
        while len(order) < n:
            while nxt < n and len(running) < self.workers:
                running.append(nxt)
                nxt += 1
            i = len(self.points)
            c = self.choices[i] if i < len(self.choices) else 0
            if c >= len(running):
                raise RuntimeError("replay divergence: choice out of range")
            self.points.append(len(running))
            order.append(running.pop(c))
        self.completion = order
        return order

    def _results(self, f, items):
        out = []
        for it in items:
            k = digest(np.asarray(it))
            if k not in self.memo:
                self.memo[k] = f(it)
            out.append(self.memo[k])
        return out

    def imap(self, f, iterable, chunksize=1):
        self.used.append("imap")
        items = list(iterable)
        r = self._results(f, items)
        self._schedule(len(items))
        return iter(r)

    def imap_unordered(self, f, iterable, chunksize=1):
        self.used.append("imap_unordered")
        items = list(iterable)
        r = self._results(f, items)
        return iter([r[i] for i in self._schedule(len(items))])

    def map(self, f, iterable, chunksize=None):
        self.used.append("map")
        return list(self.imap(f, iterable))

    def starmap(self, f, iterable, chunksize=None):
        self.used.append("starmap")
        return self.map(lambda a: f(*a), iterable)

    def apply_async(self, f, args=(), kwds=None):
        self.used.append("apply_async")
        pool = self

        class R:
            def get(self_inner, timeout=None):
                return f(*args, **(kwds or {}))

        return R()

    def map_async(self, f, iterable, chunksize=None):
        r = self.map(f, iterable)

        class R:
            def get(self_inner, timeout=None):
                return r

        return R()


def n_schedules(n, w, dev=None):
    """Independent recurrence for the number of completion orders (with at most `dev`
    choices other than the oldest running task, if given)."""
    from functools import lru_cache

    @lru_cache(None)
    def rec(nxt, running, budget):
        # fill
        while nxt < n and running < w:
            running += 1
            nxt += 1
        if running == 0:
            return 1
        if budget is None:
            return running * rec(nxt, running - 1, None)
        tot = rec(nxt, running - 1, budget)
        if budget > 0:
            tot += (running - 1) * rec(nxt, running - 1, budget - 1)
        return tot

    return rec(0, 0, dev)


def batch_stack(N):
    from scipy.spatial.transform import Rotation

    tex = [alph.texture(["random", "cluster", "girdle", "random2", "single"][i], 4) for i in range(min(N, 5))]
    tex += [Rotation.random(4, random_state=7000 + alph.SEED + i).as_matrix() for i in range(5, N)]
    return np.array(tex)


def run_batched(key):
    res = empty_result()
    g, d, s = mods()
    N = key["N"]
    system = g.LatticeSystem.triclinic  # the system that is right on every tree; order is what is checked
    stack = batch_stack(N)
    dev = key.get("dev")
    direct = [float(d.misorientation_index(stack[i], system)) for i in range(N)]
    if len(set(np.round(direct, 12))) != N:
        raise RuntimeError("snapshot values must be pairwise distinct for the order to be observable")
    memo = {}
    nsched = 0
    noninorder = 0
    prims = set()
    for W in range(1, 17):
        count = 0
        stack_ = [[]]
        while stack_ and len(res["viol"]) <= 100:
            prefix = stack_.pop()
            vp = VirtualPool(W, prefix, memo)
            res["n"] += 1
            if key["via"] == "arg":
                out = d.misorientation_indices(stack, system, pool=vp)
            else:
                old = d.Pool
                made = []

                def factory(processes=None, *a, **k):
                    p = VirtualPool(processes, prefix, memo)
                    made.append(p)
                    return p

                d.Pool = factory
                try:
                    out = d.misorientation_indices(stack, system, ncpus=W)
                finally:
                    d.Pool = old
                vp = made[0] if made else vp
                if made and made[0].workers != W:
                    V(res, key, "worker_count_honoured", {"requested": W, "got": made[0].workers}, W=W)
            count += 1
            prims.update(vp.used)
            res["clauses"]["batched_order"] = res["clauses"].get("batched_order", 0) + 1
            out = np.asarray(out, float)
            if out.shape != (N,) or not np.array_equal(out, np.array(direct)):
                form = "other"
                if vp.completion is not None and out.shape == (N,) and np.array_equal(out, np.array(direct)[vp.completion]):
                    form = "completion_order"
                V(res, key, "batched_order", {"got": out, "expected": direct, "completion": vp.completion}, W=W, sched="".join(map(str, vp.completion or [])), form=form)
            if vp.completion is not None and vp.completion != sorted(vp.completion):
                noninorder += 1
            # branch on every alternative after the prefix
            for i in range(len(prefix), len(vp.points)):
                if dev is not None and sum(1 for c in prefix if c) >= dev:
                    break
                for alt in range(1, vp.points[i]):
                    stack_.append(list((prefix + [0] * len(vp.points))[:i]) + [alt])
        if len(res["viol"]) > 100:
            res["notes"]["batched_case_stopped_after_100_violations"] = 1
            nsched += count
            break
        expect = n_schedules(N, W, dev)
        if count != expect:
            raise RuntimeError(f"explorer visited {count} schedules, recurrence says {expect} (N={N}, W={W})")
        nsched += count
    res["states"] = nsched
    res["trans"] = nsched
    res["notes"]["schedules"] = nsched
    res["notes"]["schedules_not_in_submission_order"] = noninorder
    res["nontrivial"] += [digest(key, i) for i in range(min(noninorder, 50))]
    res["outcomes"].append(digest(sorted(prims)))
    res["obs"] = digest(direct, nsched)
    res["sample"] = {"case": key, "schedules": nsched, "pool_primitives_used": sorted(prims)}
    return res


def finalize(agg, tier, seed):
    """Model-to-implementation binding: the same stacks through the real
    multiprocessing.Pool; every real run must equal the (unique) behaviour of the model."""
    from multiprocessing import get_context

    g, d, s = mods()
    system = g.LatticeSystem.triclinic
    viol = []
    runs = 0
    for N in (1, 3, 5, 6, 8):
        stack = batch_stack(N)
        direct = np.array([float(d.misorientation_index(stack[i], system)) for i in range(N)])
        for W in range(1, 5 if tier == "quick" else 17):
            with get_context("fork").Pool(W) as pool:
                out = np.asarray(d.misorientation_indices(stack, system, pool=pool), float)
            runs += 1
            if not np.array_equal(out, direct):
                viol.append({"clause": "real_pool_conformance", "key": {"part": "batched", "N": N, "W": W, "via": "real"}, "detail": {"got": out, "expected": direct}})
            if N in (3, 6):  # the pool the function makes itself
                out = np.asarray(d.misorientation_indices(stack, system, ncpus=W), float)
                runs += 1
                if not np.array_equal(out, direct):
                    viol.append({"clause": "real_pool_conformance", "key": {"part": "batched", "N": N, "W": W, "via": "real_internal"}, "detail": {"got": out, "expected": direct}})
    # hidden state: M(system, set) evaluated after other systems vs evaluated first
    seq = {k: v for k, v in agg["notes"].items() if k.startswith("seqval|")}
    ncmp = 0
    for k, v in seq.items():
        _, first, sysname, sname = k.split("|")
        first = first.split("=")[1]
        ref = seq.get(f"seqval|first={sysname}|{sysname}|{sname}")
        if ref is None or first == sysname:
            continue
        ncmp += 1
        same = (v == ref) or (np.isnan(v) and np.isnan(ref))
        if not same:
            viol.append({"clause": "order_of_evaluation", "key": {"part": "sequence", "system": sysname, "set": sname, "evaluated_after": first}, "detail": {"value_after": v, "value_first": ref}})
    for k in seq:
        agg["notes"].pop(k, None)
    agg["clauses"]["order_of_evaluation"] = ncmp
    return {"traces_validated_against_impl": runs, "real_pool_runs": runs, "viol": viol}


if __name__ == "__main__":
    import json
    import os
    import sys

    from mc.runner import quiet_pydrex

    alph.configure(int(os.environ.get("VERIF_SEED", "0")), os.environ.get("VERIF_TIER", "quick"))
    import pydrex  # noqa

    quiet_pydrex()
    print("RESULT " + json.dumps(seq_child(sys.argv[1])))
