"""C13 - eigenvalue-based texture and strain diagnostics are objective (engine A:
exhaustive product of sharp alphabets; every point is compared with an independent numpy
computation and with its own transformed twins).

Conventions (pydrex.diagnostics module docstring): an orientation matrix holds the crystal
axes a, b, c as ROWS, expressed in the external frame.  Rotating the external frame by Q
maps A -> A.Q^T (every axis vector v -> Q.v); a lattice-equivalent orientation is S.A with
S one of the three two-folds (sign flip of two rows)."""

import functools
import itertools
import math

import numpy as np

from mc import alph
from mc.runner import digest, empty_result

PID = "C13"
RULE = (
    "textures: orientation sets (n = 1, 2, 3, 4, 24, 50, 1000; +5, 10000 thorough; kinds: one "
    "orientation repeated, two orientations (generic / tie / lattice-equivalent / 1e-7 apart), "
    "orthogonal triples (exactly isotropic axis), the 24 cube rotations, seeded random x2, "
    "clustered, girdle, cyclic cube) x every frame rotation Q in FRAME (one case per (set, Q)) x "
    "grain permutations (all n! for n <= 4, else reversal / rotation by one / one transposition) x "
    "lattice relabellings (all 4^n two-fold assignments for n <= 3, else all-2a / alternating / one "
    "grain) x crystal axes a, b, c; coaxial index: default call + all 6 ordered pairs of distinct axes "
    "on the set itself and on every single-kind transform, default call on combined transforms (pairs "
    "with an exactly isotropic scatter matrix are skipped, for the coaxial index only). "
    "finite strain: F alphabet (identity, rotation, dilatation, stretches incl. tied / uniaxial, "
    "rotation.stretch, stretch.rotation, non-symmetric generic incl. det != 1 and scaled 1e-3 / 1e3, "
    "simple shears F = I + g e_i(x)e_j for all 6 (i, j) and g in {0.1, 0.5, 2}) x the full product "
    "Q_left x Q_right over FRAME, plus Q.F.Q^T for the closed-form angle. A sub-case is non-trivial "
    "when its principal eigenvalue is separated (relative gap > 1e-6) and the scatter matrix / "
    "stretch tensor is not a multiple of a rank-one projector or of the identity; distinct = "
    "distinct (set, n, Q, axis) or (F letter)."
)
ASSUMPTIONS = [
    "math.fsum, numpy linalg.eigh / linalg.svd are trusted (the oracle's scatter matrix, eigen-pairs and singular values)",
    "orientation matrices are orthonormal to rounding; deformation gradients have det > 0 and entries within [1e-3, 1e3]",
    "rounding tolerance 1e-12 on normalised scalars; eigenvector comparisons only where the relative gap between "
    "the two largest eigenvalues exceeds 1e-6, with tolerance 1e-12 + 1e-13/gap; where the principal eigenvector is "
    "not unique only 'lies in the principal eigenspace' (Rayleigh quotient) is asserted",
    "the symbols P, G, R and BA are the formulas given in the docstrings of symmetry_pgr and coaxial_index "
    "(Vollmer 1990; Mainprice et al. 2015 with P-term from axis1 and G-term from axis2)",
    "angle_fse_simpleshear(strain) takes the tensorial strain gamma/2 and returns degrees measured from the "
    "velocity-gradient axis (shear-plane normal e_j) towards the shear direction e_i, i.e. 'X' of its docstring is "
    "the gradient axis of pydrex's standard simple_shear_2d('Y', 'X') set-up",
]
BOUND = {
    "quick": "n_grains in {1,2,3,4,24,50,1000}; |FRAME| = 27 (24 cube + 3 generic); shear strains gamma in {0.1,0.5,2,4,10}",
    "thorough": "n_grains in {1,2,3,4,5,24,50,1000,10000}; |FRAME| = 30 (24 cube + 6 generic)",
}

AXES = "abc"
TOL = 1e-12  # rounding tolerance on normalised scalars (statement)
GAP = 1e-6  # relative eigenvalue gap below which a principal axis is treated as not unique
AXTOL = 1e-13  # eigenvector tolerance = TOL + AXTOL / (relative gap); observed max err * gap on the unchanged tree: 3.4e-15
ISO = 1e-9  # (lambda1 - lambda3)/N below this = "exactly isotropic" (coaxial index undefined)
GAMMAS = (0.1, 0.5, 2.0, 4.0, 10.0)
SHEAR_PAIRS = [(0, 2), (0, 1), (1, 0), (1, 2), (2, 0), (2, 1)]
BA_PAIRS = [("default", "default")] + [(p, q) for p in AXES for q in AXES if p != q]

_D = None  # pydrex.diagnostics
_U = None  # pydrex.utils


def _imp():
    global _D, _U
    if _D is None:
        from pydrex import diagnostics as d
        from pydrex import utils as u

        _D, _U = d, u
    return _D, _U


def warmup():
    d, u = _imp()
    A = alph.texture("random", 5)
    d.symmetry_pgr(A, axis="a")
    d.bingham_average(A, axis="a")
    d.coaxial_index(A)
    d.finite_strain(np.eye(3) + 0.1 * np.outer([1.0, 0, 0], [0, 0, 1.0]))
    u.angle_fse_simpleshear(0.25)


# ------------------------------------------------------------------ alphabets


def grain_counts(tier):
    return [1, 2, 3, 4, 24, 50, 1000] if tier == "quick" else [1, 2, 3, 4, 5, 24, 50, 1000, 10000]


def set_names(n):
    single = ["single:I", "single:g0"] + (["single:gs0"] if n == 1 else [])
    two = ["two:I+g0", "two:I+rz90", "two:g0+2a.g0", "two:g0+near", "two:g0+gs0"]
    tex = ["random", "random2", "cluster", "girdle"]
    if n == 1:
        return single + tex
    if n == 2:
        return single + two + tex
    if n == 3:
        return single + two + ["ortho3", "ortho3a"] + tex
    if n in (4, 5):
        return single + two + ["aligned"] + tex
    if n == 24:
        return ["CUBE", "single:g0", "two:g0+gs0"] + tex
    return ["single:g0", "two:I+g0", "two:g0+gs0", "aligned"] + tex


@functools.lru_cache(maxsize=None)
def build_set(name, n):
    """Named orientation set, shape (n, 3, 3); cached, treat as read-only."""
    I = np.eye(3)
    g0, gs0 = alph.GEN["g0"], alph.GEN["gs0"]
    rz90 = np.array([[0.0, -1.0, 0.0], [1.0, 0.0, 0.0], [0.0, 0.0, 1.0]])
    if name.startswith("single:"):
        o = {"I": I, "g0": g0, "gs0": gs0}[name[7:]]
        return np.repeat(o[None], n, axis=0).copy()
    if name.startswith("two:"):
        o1, o2 = {
            "I+g0": (I, g0),
            "I+rz90": (I, rz90),  # a-axes x and y: exact tie of the two largest eigenvalues
            "g0+2a.g0": (g0, alph.TWOFOLDS["2a"] @ g0),  # lattice-equivalent pair
            "g0+near": (g0, g0 @ alph.NEAR["n1e-7"].T),  # 1e-7 rad apart
            "g0+gs0": (g0, gs0),
        }[name[4:]]
        return np.array([o1 if i % 3 == 0 else o2 for i in range(n)])
    if name == "ortho3":  # rows cyclically permuted: a, b and c scatter matrices all = identity
        return np.array([I, I[[1, 2, 0]], I[[2, 0, 1]]])
    if name == "ortho3a":  # a-axes x, y, z (isotropic); b-axes y, x, y; c-axes z, z, x
        return np.array(
            [I, np.array([[0.0, 1, 0], [-1.0, 0, 0], [0, 0, 1.0]]), np.array([[0.0, 0, 1], [0, 1.0, 0], [-1.0, 0, 0]])]
        )
    if name == "CUBE":
        assert n == 24
        return np.array(list(alph.CUBE.values()))
    if name in ("random", "random2", "cluster", "girdle", "aligned"):
        return np.ascontiguousarray(alph.texture(name, n), dtype=float)
    raise KeyError(name)


def perm_letters(n):
    if n <= 4:
        return [("".join(map(str, p)), list(p)) for p in itertools.permutations(range(n))]
    idx = list(range(n))
    sw = idx.copy()
    sw[0], sw[n // 2] = sw[n // 2], sw[0]
    return [("id", idx), ("rev", idx[::-1]), ("roll1", idx[1:] + idx[:1]), (f"swap0-{n // 2}", sw)]


def relab_letters(n):
    names = list(alph.TWOFOLDS)
    if n <= 3:
        return [(".".join(c), list(c)) for c in itertools.product(names, repeat=n)]
    one = ["I"] * n
    one[n // 3] = "2c"
    return [
        ("id", ["I"] * n),
        ("all2a", ["2a"] * n),
        ("alt2b2c", ["2b" if i % 2 == 0 else "2c" for i in range(n)]),
        (f"one2c@{n // 3}", one),
    ]


def is_identity_letter(name, n):
    return name in ("id", "".join(map(str, range(n))), ".".join(["I"] * n))


def fse_letters():
    from scipy.linalg import expm

    e = np.eye(3)
    ax = "xyz"
    g0 = alph.GEN["g0"]
    st = np.diag([1.5, 0.8, 1.1])  # det = 1.32
    F = {"I": np.eye(3)}
    for g in GAMMAS:
        for i, j in SHEAR_PAIRS:
            F[f"ss_{ax[i]}{ax[j]}_{g}"] = np.eye(3) + g * np.outer(e[i], e[j])
    F["stretch"] = st
    F["stretch_tie"] = np.diag([2.0, 2.0, 0.5])  # two equal largest stretches: long axis not unique
    F["uniaxial"] = np.diag([2.0, 0.7, 0.7])
    F["dilatation"] = 1.3 * np.eye(3)  # F.F^T multiple of identity, strain 0.3
    F["rot"] = g0.copy()  # pure rotation: F.F^T = I
    F["rot.stretch"] = g0 @ st
    F["stretch.rot"] = st @ g0
    F["gen0"] = expm(alph.VG["gen0"])
    F["gens"] = expm(alph.VG["gens"])
    F["gen0_tr"] = expm(alph.VG["gen0_tr"])  # det != 1
    F["gens_tr"] = expm(alph.VG["gens_tr"])
    F["gen0_1e-3"] = 1e-3 * F["gen0"]
    F["gens_1e3"] = 1e3 * F["gens"]
    return F


def ALPHABETS():
    return {
        "frame_rotations": len(alph.FRAME),
        "cube": len(alph.CUBE),
        "twofolds": len(alph.TWOFOLDS),
        "grain_counts": len(grain_counts(alph.TIER)),
        "orientation_sets": sum(len(set_names(n)) for n in grain_counts(alph.TIER)),
        "crystal_axes": 3,
        "coaxial_axis_pairs": len(BA_PAIRS),
        "deformation_gradients": len(fse_letters()),
        "closure_generator_applications": alph.CLOSURE_APPS,
    }


def gen_cases(tier, seed):
    keys = []
    for n in grain_counts(tier):
        for s in set_names(n):
            for q in alph.FRAME:
                keys.append({"part": "tex", "set": s, "n": n, "Q": q})
    for f in fse_letters():
        keys.append({"part": "fse", "F": f})
    return keys


def run_case(key):
    if key["part"] == "tex":
        return run_tex(key)
    return run_fse(key)


# ------------------------------------------------------------------ textures


def reference(A):
    """Independent numpy computation: per crystal axis (row) the full scatter matrix
    sum_g outer(v_g, v_g), its eigen-pairs and the Vollmer indices."""
    # exactly rounded sums (math.fsum): a naive accumulation over 1e4 grains would be less
    # accurate than the code under check and would set the achievable tolerance
    prod = A[:, :, :, None] * A[:, :, None, :]
    S = np.empty((3, 3, 3))
    for a in range(3):
        for i in range(3):
            for j in range(i + 1):
                S[a, i, j] = S[a, j, i] = math.fsum(prod[:, a, i, j])
    out = []
    for a in range(3):
        w, U = np.linalg.eigh(S[a])
        l3, l2, l1 = float(w[0]), float(w[1]), float(w[2])
        N = l1 + l2 + l3
        out.append(
            {
                "S": S[a],
                "lam": (l1, l2, l3),
                "N": N,
                "P": (l1 - l2) / N,
                "G": 2 * (l2 - l3) / N,
                "R": 3 * l3 / N,
                "u": U[:, 2],
                "U": U,
            }
        )
    return out


def ba_formula(r1, r2):
    d1, d2 = r1["G"] + r1["P"], r2["G"] + r2["P"]
    if d1 == 0 or d2 == 0:
        return float("nan")
    return 0.5 * (2 - r1["P"] / d1 - r2["G"] / d2)


def observe(A, ba_pairs):
    """All implementation outputs for one orientation set."""
    d, _ = _imp()
    o = {"pgr": [], "mean": [], "ba": {}}
    for a in AXES:
        o["pgr"].append(tuple(float(x) for x in d.symmetry_pgr(A, axis=a)))
        o["mean"].append(np.asarray(d.bingham_average(A, axis=a), dtype=float))
    for p, q in ba_pairs:
        if p == "default":
            o["ba"][(p, q)] = float(d.coaxial_index(A))
        else:
            o["ba"][(p, q)] = float(d.coaxial_index(A, axis1=p, axis2=q))
    o["calls"] = 6 + len(ba_pairs)
    return o


def axis_err(m, u):
    return float(min(np.linalg.norm(m - u), np.linalg.norm(m + u)))


def run_tex(key):
    res = empty_result()
    n = key["n"]
    A0 = build_set(key["set"], n)
    assert A0.shape == (n, 3, 3)
    Q = alph.FRAME[key["Q"]]
    q_id = bool(np.array_equal(Q, np.eye(3)))
    cl = res["clauses"]
    seen = set()
    obs = []
    notes = res["notes"]
    notes.update(max_axis_err_x_gap=0.0, max_scalar_dev=0.0, max_ba_dev_x_pg=0.0, max_ba_ref_dev_x_pg=0.0, axis_gated=0, ba_skipped_isotropic=0)

    def count(c, k=1):
        cl[c] = cl.get(c, 0) + k

    def V(clause, sub, detail, **extra):
        # one violation per (clause, axis or pair) and case: the first in enumeration order
        if (clause, sub) in seen:
            return
        seen.add((clause, sub))
        k = dict(key)
        k["axis"] = sub
        k.update(extra)
        res["viol"].append({"clause": clause, "key": k, "detail": detail})

    ref0 = reference(A0)
    iso = [(r["lam"][0] - r["lam"][2]) / r["N"] <= ISO for r in ref0]
    ba_pairs = []
    for p, q in BA_PAIRS:
        i1, i2 = ("b", "a") if p == "default" else (p, q)
        if iso[AXES.index(i1)] or iso[AXES.index(i2)]:
            notes["ba_skipped_isotropic"] += 1
            continue
        ba_pairs.append((p, q))

    try:
        base = observe(A0, ba_pairs)
    except Exception as e:  # nothing to compare against
        V("no_result", "-", {"exception": type(e).__name__, "msg": str(e)[:200]}, perm="id", relab="id", exc=type(e).__name__)
        res["obs"] = digest("exc")
        res["sample"] = {"case": key}
        return res
    res["n"] += base["calls"]
    # the caller streams the next texture INTO THE SAME BUFFER (in place) and asks again: the
    # answer is that of the new contents (seed C13h: scatter matrix memoised on the identity
    # of the orientation array)
    if q_id and n >= 2:
        count("inplace_refill")
        try:
            buf = np.array(A0, float)
            observe(buf, ba_pairs)
            other = np.ascontiguousarray(A0[::-1] @ alph.GEN["g1"].T)
            buf[...] = other
            got = observe(buf, ba_pairs)
            want = observe(other.copy(), ba_pairs)
            res["n"] += 3 * got["calls"]
            if not (all(np.array_equal(x, y, equal_nan=True) for x, y in zip(got["pgr"], want["pgr"])) and all(np.array_equal(x, y, equal_nan=True) for x, y in zip(got["mean"], want["mean"]))):
                V("inplace_refill", "-", {"pgr_on_refilled_buffer": got["pgr"], "pgr_on_fresh_copy": want["pgr"]})
        except Exception as e:
            V("inplace_refill", "-", {"exception": type(e).__name__, "msg": str(e)[:200]}, exc=type(e).__name__)
    # the same numbers in Fortran memory order / as a transposed view: same diagnostics
    if q_id and n >= 2:
        lay = [("fortran", np.asfortranarray(A0)), ("tview", np.ascontiguousarray(A0.transpose(0, 2, 1)).transpose(0, 2, 1))]
        if np.array_equal(A0, np.rint(A0)):
            lay.append(("int64", np.rint(A0).astype(np.int64)))  # axis-aligned grains typed with integer literals (seed C13i)
        for tag, Al in lay:
            count("layout_irrelevant")
            try:
                alt = observe(Al, ba_pairs)
                res["n"] += alt["calls"]
                same = all(np.allclose(x, y, rtol=0, atol=1e-12, equal_nan=True) for x, y in zip(alt["pgr"], base["pgr"])) and all(
                    min(np.abs(x - y).max(), np.abs(x + y).max()) <= 1e-9 for x, y in zip(alt["mean"], base["mean"])
                )
                if not same:
                    V("layout_irrelevant", tag, {"pgr": alt["pgr"], "pgr_contiguous": base["pgr"]}, layout=tag)
            except Exception as e:
                V("layout_irrelevant", tag, {"exception": type(e).__name__, "msg": str(e)[:200]}, layout=tag, exc=type(e).__name__)

    perms = perm_letters(n)
    relabs = relab_letters(n)
    S2 = alph.TWOFOLDS
    for (pn, perm), (rn, rel) in itertools.product(perms, relabs):
        p_id, r_id = is_identity_letter(pn, n), is_identity_letter(rn, n)
        ident = p_id and r_id and q_id
        kinds = [k for k, f in (("frame", not q_id), ("perm", not p_id), ("relab", not r_id)) if f]
        kind = kinds[0] if len(kinds) == 1 else "combined"
        T = A0[perm]
        if not r_id:
            T = np.array([S2[s] for s in rel]) @ T
        if not q_id:
            T = T @ Q.T
        T = np.ascontiguousarray(T)
        res["states"] += 1
        res["trans"] += len(kinds)
        tk = {"perm": pn, "relab": rn}
        # coaxial index: every axis pair on the set itself and on single-kind transforms (only Q,
        # only a permutation, only a relabelling); the default pair (b, a) on combined transforms
        pairs = ba_pairs if len(kinds) <= 1 else [pq for pq in ba_pairs if pq[0] == "default"]
        if ident:
            o = base
        else:
            try:
                o = observe(T, pairs)
            except Exception as e:
                V("no_result", "-", {"exception": type(e).__name__, "msg": str(e)[:200]}, exc=type(e).__name__, **tk)
                continue
            res["n"] += o["calls"]
        ref = reference(T)
        for a, axn in enumerate(AXES):
            r = ref[a]
            P, G, R = o["pgr"][a]
            m = o["mean"][a]
            obs += [P, G, R, *np.abs(m)] if m.shape == (3,) else [P, G, R]
            # ---- absolute clauses on this (transformed) set
            count("pgr_range")
            if not all(np.isfinite(x) and -TOL <= x <= 1 + TOL for x in (P, G, R)):
                V("pgr_range", axn, {"P": P, "G": G, "R": R}, **tk)
            count("pgr_sum")
            if not abs(P + G + R - 1) <= TOL:
                V("pgr_sum", axn, {"P": P, "G": G, "R": R, "sum": P + G + R}, **tk)
            count("pgr_value")
            dev = max(abs(P - r["P"]), abs(G - r["G"]), abs(R - r["R"]))
            if not dev <= TOL:
                V("pgr_value", axn, {"impl": [P, G, R], "ref": [r["P"], r["G"], r["R"]]}, form=pgr_form((P, G, R), r, T, a), **tk)
            count("mean_unit")
            if m.shape != (3,) or not np.isfinite(m).all() or not abs(np.linalg.norm(m) - 1) <= TOL:
                V("mean_unit", axn, {"mean": m}, **tk)
                continue
            count("mean_eigvec")
            ray = float(m @ r["S"] @ m)
            bad = not ray >= r["lam"][0] - TOL * r["N"]
            if r["P"] > GAP:
                err = axis_err(m, r["u"])
                notes["max_axis_err_x_gap"] = max(notes["max_axis_err_x_gap"], err * r["P"])
                bad = bad or not err <= TOL + AXTOL / r["P"]
            if bad:
                V(
                    "mean_eigvec",
                    axn,
                    {"mean": m, "principal": r["u"], "rayleigh": ray, "lambda": r["lam"]},
                    form=mean_form(m, r, T, a),
                    **tk,
                )
            # ---- invariance against the untransformed set
            if ident:
                continue
            count("inv_" + kind)
            dev = max(abs(x - y) for x, y in zip((P, G, R), base["pgr"][a]))
            notes["max_scalar_dev"] = max(notes["max_scalar_dev"], dev if np.isfinite(dev) else 1.0)
            if not dev <= TOL:
                V("inv_" + kind, axn, {"transformed": [P, G, R], "base": list(base["pgr"][a])}, **tk)
            if ref0[a]["P"] > GAP:
                count("axis_" + kind)
                mb = base["mean"][a]
                if mb.shape == (3,) and np.isfinite(mb).all():
                    err = axis_err(m, Q @ mb)
                    notes["max_axis_err_x_gap"] = max(notes["max_axis_err_x_gap"], err * ref0[a]["P"])
                    if not err <= TOL + AXTOL / ref0[a]["P"]:
                        V("axis_" + kind, axn, {"transformed": m, "expected_pm": Q @ mb, "err": err}, **tk)
            else:
                notes["axis_gated"] += 1
        # ---- coaxial index
        for p, q in pairs:
            i1, i2 = ("b", "a") if p == "default" else (p, q)
            r1, r2 = ref[AXES.index(i1)], ref[AXES.index(i2)]
            ba = o["ba"][(p, q)]
            sub = f"{p},{q}" if p != "default" else "default"
            obs.append(ba)
            count("ba_range")
            if not (np.isfinite(ba) and -TOL <= ba <= 1 + TOL):
                V("ba_range", sub, {"BA": ba}, **tk)
            pg = min(r1["P"] + r1["G"], r2["P"] + r2["G"])
            tol = TOL + 1e-13 / pg
            count("ba_value")
            want = ba_formula(r1, r2)
            dev = abs(ba - want)
            notes["max_ba_ref_dev_x_pg"] = max(notes["max_ba_ref_dev_x_pg"], dev * pg if np.isfinite(dev) else 1.0)
            if not dev <= tol:
                V("ba_value", sub, {"BA": ba, "ref": want, "P+G": pg}, form=ba_form(ba, ref, i1, i2), **tk)
            if ident:
                continue
            count("inv_" + kind)
            dev = abs(ba - base["ba"][(p, q)])
            notes["max_ba_dev_x_pg"] = max(notes["max_ba_dev_x_pg"], dev * pg if np.isfinite(dev) else 1.0)
            if not dev <= tol:
                V("inv_" + kind, sub, {"transformed": ba, "base": base["ba"][(p, q)], "P+G": pg}, **tk)

    for a, axn in enumerate(AXES):
        r = ref0[a]
        if r["P"] > GAP and r["P"] < 1 - 1e-9:
            res["nontrivial"].append(digest("tex", key["set"], n, key["Q"], axn))
        res["outcomes"].append(digest(np.round(base["pgr"][a], 9)))
    for pq, ba in base["ba"].items():
        res["outcomes"].append(digest("ba", round(ba, 9)))
    res["obs"] = digest(np.array(obs, dtype=float))
    res["sample"] = {
        "case": key,
        "perms": len(perms),
        "relabellings": len(relabs),
        "PGR_a": [round(x, 6) for x in base["pgr"][0]],
        "isotropic_axes": [AXES[i] for i in range(3) if iso[i]],
    }
    return res


def pgr_form(got, r, T, a):
    """Characterise a wrong (P, G, R) triple (used only to make violation keys precise)."""
    l1, l2, l3 = r["lam"]
    N = r["N"]
    cands = {
        "PG_swapped": (r["G"], r["P"], r["R"]),
        "ascending_eigenvalues": ((l3 - l2) / N, 2 * (l2 - l1) / N, 3 * l1 / N),
        "P_uses_lambda3": ((l1 - l3) / N, r["G"], r["R"]),
        "G_uses_lambda1": (r["P"], 2 * (l1 - l3) / N, r["R"]),
        "unnormalised": (l1 - l2, 2 * (l2 - l3), 3 * l3),
    }
    Sc = np.einsum("ni,nj->ij", T[:, :, a], T[:, :, a])
    w = np.linalg.eigvalsh(Sc)[::-1]
    cands["column_scatter"] = ((w[0] - w[1]) / w.sum(), 2 * (w[1] - w[2]) / w.sum(), 3 * w[2] / w.sum())
    for name, c in cands.items():
        if np.allclose(got, c, rtol=0, atol=1e-9):
            return name
    return "other"


def mean_form(m, r, T, a):
    U = r["U"]
    Sc = np.einsum("ni,nj->ij", T[:, :, a], T[:, :, a])
    for name, u in (("smallest_eigvec", U[:, 0]), ("middle_eigvec", U[:, 1]), ("column_scatter", np.linalg.eigh(Sc)[1][:, 2])):
        if axis_err(m, u) <= 1e-6:
            return name
    return "other"


def ba_form(ba, ref, i1, i2):
    by = dict(zip(AXES, ref))
    with np.errstate(all="ignore"):
        for name, (x, y) in (("axes_swapped", (i2, i1)), ("axis1_twice", (i1, i1)), ("axis2_twice", (i2, i2))):
            if abs(ba - ba_formula(by[x], by[y])) <= 1e-9:
                return name
        for x in AXES:
            for y in AXES:
                if (x, y) != (i1, i2) and abs(ba - ba_formula(by[x], by[y])) <= 1e-9:
                    return f"uses_{x}{y}"
    return "other"


# ------------------------------------------------------------------ finite strain


def fse_reference(F):
    """Largest singular value of F and its left singular vector (F.F^T = U s^2 U^T)."""
    U, s, _ = np.linalg.svd(F)
    gap = (s[0] ** 2 - s[1] ** 2) / s[0] ** 2
    return float(s[0]), U[:, 0], float(gap)


def run_fse(key):
    d, u = _imp()
    res = empty_result()
    cl = res["clauses"]
    seen = set()
    obs = []
    notes = res["notes"]
    notes.update(max_fse_axis_err_x_gap=0.0, max_fse_value_relerr=0.0, fse_axis_gated=0)
    F0 = fse_letters()[key["F"]]

    def count(c, k=1):
        cl[c] = cl.get(c, 0) + k

    def V(clause, detail, **extra):
        if clause in seen:
            return
        seen.add(clause)
        k = dict(key)
        k.update(extra)
        res["viol"].append({"clause": clause, "key": k, "detail": detail})

    def call(F):
        res["n"] += 1
        out = d.finite_strain(np.ascontiguousarray(F).copy())
        e_, v_ = float(out[0]), np.asarray(out[1], dtype=float)
        # the same gradient in Fortran memory order / typed int64 where whole: same result
        alts = [("fortran", np.asfortranarray(np.array(F, float)))]
        if np.array_equal(F, np.rint(F)):
            alts.append(("int64", np.rint(F).astype(np.int64)))
        for tag, Fl in alts:
            count("fse_layout_dtype_irrelevant")
            try:
                o2 = d.finite_strain(Fl)
                v2 = np.asarray(o2[1], float)
                if not (abs(float(o2[0]) - e_) <= 1e-12 * max(1.0, abs(e_)) and (v2.shape != (3,) or min(np.abs(v2 - v_).max(), np.abs(v2 + v_).max()) <= 1e-9 or gap_of(F) <= GAP)):
                    V("fse_layout_dtype_irrelevant", {"strain": float(o2[0]), "strain_contiguous_float64": e_, "axis": v2, "axis_contiguous_float64": v_}, variant=tag)
            except Exception as ex:
                V("fse_layout_dtype_irrelevant", {"exception": type(ex).__name__, "msg": str(ex)[:200]}, variant=tag)
        # every LAPACK driver the function accepts gives the same strain and long axis
        for drv in ("evd", "evr", "evx"):
            count("fse_driver_irrelevant")
            try:
                o3 = d.finite_strain(np.ascontiguousarray(F, dtype=float).copy(), driver=drv)
                v3 = np.asarray(o3[1], float)
                if not (abs(float(o3[0]) - e_) <= 1e-9 * max(1.0, abs(e_)) and (v3.shape != (3,) or min(np.abs(v3 - v_).max(), np.abs(v3 + v_).max()) <= 1e-6 or gap_of(F) <= GAP)):
                    V("fse_driver_irrelevant", {"strain": float(o3[0]), "strain_default_driver": e_, "axis": v3, "axis_default_driver": v_}, driver=drv)
            except Exception as ex:
                V("fse_driver_irrelevant", {"exception": type(ex).__name__, "msg": str(ex)[:200]}, driver=drv)
        return e_, v_

    def gap_of(F):
        return fse_reference(np.array(F, float))[2]

    def absolute(F, e, v, tk):
        s0, u0, gap = fse_reference(F)
        count("fse_value")
        rel = abs(e - (s0 - 1)) / max(1.0, s0)
        notes["max_fse_value_relerr"] = max(notes["max_fse_value_relerr"], rel if np.isfinite(rel) else 1.0)
        if not rel <= TOL:
            form = "other"
            if abs(e - (s0**2 - 1)) <= 1e-9 * s0**2:
                form = "no_sqrt"
            elif abs(e - s0) <= 1e-9 * s0:
                form = "no_minus_one"
            elif abs(e - (np.linalg.svd(F)[1][2] - 1)) <= 1e-9 * s0:
                form = "smallest_stretch"
            V("fse_value", {"strain": e, "ref": s0 - 1}, form=form, **tk)
        count("fse_unit")
        if v.shape != (3,) or not np.isfinite(v).all() or not abs(np.linalg.norm(v) - 1) <= TOL:
            V("fse_unit", {"axis": v}, **tk)
            return None
        count("fse_axis")
        stretch = float(np.linalg.norm(F.T @ v))  # stretch of the ellipsoid along v: sqrt(v.B.v)
        bad = not stretch >= s0 * (1 - TOL)
        if gap > GAP:
            err = axis_err(v, u0)
            notes["max_fse_axis_err_x_gap"] = max(notes["max_fse_axis_err_x_gap"], err * gap)
            bad = bad or not err <= TOL + AXTOL / gap
        if bad:
            form = "other"
            _, _, Vt = np.linalg.svd(F)
            if axis_err(v, Vt[0]) <= 1e-6:
                form = "right_stretch_axis_FtF"
            elif axis_err(v, np.linalg.svd(F)[0][:, 2]) <= 1e-6:
                form = "short_axis"
            V("fse_axis", {"axis": v, "ref_pm": u0, "stretch_along_axis": stretch, "max_stretch": s0}, form=form, **tk)
        return gap

    e0, v0 = call(F0)
    gap0 = fse_reference(F0)[2]
    for (ln, Ql), (rn, Qr) in itertools.product(alph.FRAME.items(), alph.FRAME.items()):
        l_id, r_id = ln == "cube00", rn == "cube00"
        tk = {"Ql": ln, "Qr": rn}
        F = Ql @ F0 @ Qr
        res["states"] += 1
        res["trans"] += (not l_id) + (not r_id)
        e, v = (e0, v0) if (l_id and r_id) else call(F)
        obs += [e, *np.abs(v)] if v.shape == (3,) else [e]
        if absolute(F, e, v, tk) is None or (l_id and r_id):
            continue
        kind = "fse_leftQ" if r_id else "fse_rightQ" if l_id else "fse_bothQ"
        count(kind)
        s0 = fse_reference(F0)[0]
        bad = not abs(e - e0) <= TOL * max(1.0, s0)
        err = None
        if gap0 > GAP and v0.shape == (3,):
            err = axis_err(v, Ql @ v0)
            notes["max_fse_axis_err_x_gap"] = max(notes["max_fse_axis_err_x_gap"], err * gap0)
            bad = bad or not err <= TOL + AXTOL / gap0
        else:
            notes["fse_axis_gated"] += 1
        if bad:
            V(kind, {"strain": e, "strain_base": e0, "axis": v, "expected_pm": Ql @ v0, "axis_err": err}, **tk)

    # closed-form angle for simple shear: F = I + g e_i (x) e_j, shear direction e_i, gradient axis e_j
    if key["F"].startswith("ss_"):
        i, j = "xyz".index(key["F"][3]), "xyz".index(key["F"][4])
        k = 3 - i - j
        g = float(key["F"].split("_")[2])
        helper = float(u.angle_fse_simpleshear(g / 2))
        res["n"] += 1
        obs.append(helper)
        if float(g / 2).is_integer():
            # a whole-number strain given as a Python int, a numpy integer or an integer array
            # is the same strain (seed C13f)
            s_ = int(g / 2)
            for tag, arg in (("int", s_), ("int64", np.int64(s_)), ("int32", np.int32(s_)), ("int_array", np.array([s_, s_]))):
                count("fse_helper_dtype")
                res["n"] += 1
                try:
                    got = np.asarray(u.angle_fse_simpleshear(arg), float).ravel()
                    if not np.all(np.abs(got - helper) <= 1e-9):
                        V("fse_helper_dtype", {"helper_float_deg": helper, "helper_typed_deg": got.tolist(), "strain": s_}, typed=tag)
                except Exception as ex:
                    V("fse_helper_dtype", {"exception": type(ex).__name__, "strain": s_}, typed=tag)
        closed = 90.0 - 0.5 * np.degrees(np.arctan2(2.0, g))  # tan(2 theta) = 2/g from the shear direction
        for qn, Q in alph.FRAME.items():
            F = Q @ F0 @ Q.T
            res["states"] += 1
            res["trans"] += 1
            e, v = (e0, v0) if qn == "cube00" else call(F)
            if v.shape != (3,):
                continue
            ci, cj, ck = float(v @ Q[:, i]), float(v @ Q[:, j]), float(v @ Q[:, k])
            if cj < 0:
                ci, cj = -ci, -cj
            ang = float(np.degrees(np.arctan2(ci, cj)))  # from the gradient axis towards the shear direction
            obs.append(ang)
            count("fse_angle")
            if not (abs(ang - helper) <= 1e-9 and abs(ck) <= 1e-12):
                if abs(ang - closed) <= 1e-9:
                    form = "helper_is_complement" if abs(helper - (90 - closed)) <= 1e-9 else "helper_off"
                elif abs(helper - closed) <= 1e-9:
                    form = "axis_off"
                else:
                    form = "both_off"
                V(
                    "fse_angle",
                    {"axis_angle_deg": ang, "helper_deg": helper, "closed_form_deg": closed, "out_of_plane": ck},
                    Q=qn,
                    form=form,
                )

    if gap0 > GAP and not np.allclose(F0 @ F0.T, np.eye(3) * (F0 @ F0.T)[0, 0]):
        res["nontrivial"].append(digest("fse", key["F"]))
    res["outcomes"].append(digest("fse", round(e0, 9)))
    res["obs"] = digest(np.array(obs, dtype=float))
    res["sample"] = {"case": key, "strain": e0, "axis": v0, "gap": gap0}
    return res


def finalize(agg, tier, seed):
    ns = grain_counts(tier)
    return {
        "grain_counts": ns,
        "orientation_sets_by_n": {str(n): set_names(n) for n in ns},
        "permutations_by_n": {str(n): len(perm_letters(n)) for n in ns},
        "relabellings_by_n": {str(n): len(relab_letters(n)) for n in ns},
        "deformation_gradient_letters": list(fse_letters()),
    }
