#!/bin/bash
# usage: tools/verify_seed.sh <ID> [seed-dir] [checks...]
# Confirms a seeded property-breaking change independently, in a scratch worktree of /repo
# (never in /repo): patch applies, demo fails with it and passes without it, the pinned
# suite still passes with it, and the registered check(s) report it.  Records the outcome in
# /verif/seeded/<ID>/meta.json ("verified" block) and removes the worktree.
ID="$1"; SRC="${2:-/tmp/seed_${ID,,}/SEED}"; shift 2
CHECKS="${@:-${ID:0:3}}"
DST=/verif/seeded/$ID
WT=/tmp/wt_ver_$ID
mkdir -p $DST
[ "$SRC" != "$DST" ] && cp $SRC/patch.diff $SRC/demo.py $SRC/meta.json $DST/ 2>/dev/null
git -C /repo worktree remove --force $WT 2>/dev/null
git -C /repo worktree add -q --detach $WT HEAD || exit 2
R=$DST/verify.log; : > $R
( cd $WT
  PYTHONPATH=$WT/src /venv/bin/python $DST/demo.py > /tmp/ver_$ID.demo0 2>&1; echo "demo_original_exit=$?" >> $R
  if git apply $DST/patch.diff 2>>$R; then echo "patch_applies=yes" >> $R; else echo "patch_applies=no" >> $R; fi
  PYTHONPATH=$WT/src /venv/bin/python $DST/demo.py > /tmp/ver_$ID.demo1 2>&1; echo "demo_changed_exit=$?" >> $R
  tail -2 /tmp/ver_$ID.demo1 | cut -c1-300 >> $R
  if [ -z "$SKIP_SUITE" ]; then
    PYTHONPATH=$WT/src timeout 3000 /venv/bin/python -m pytest -ra -q -p no:cacheprovider --timeout=900 --continue-on-collection-errors > /tmp/ver_$ID.suite 2>&1
    echo "suite: $(tail -1 /tmp/ver_$ID.suite)" >> $R
  fi
)
for c in $CHECKS; do
  VERIF_REPO=$WT VERIF_OUT=/tmp/ver_out_$ID VERIF_NO_SELFTEST=1 /verif/check $c > /tmp/ver_$ID.$c.log 2>&1
  echo "check=$c exit=$? violation_lines=$(grep -c '^VIOLATION' /tmp/ver_$ID.$c.log) $(grep -m1 'fresh violations by clause' /tmp/ver_$ID.$c.log | cut -c1-300) $(grep -m1 'HARNESS-ERROR' /tmp/ver_$ID.$c.log | cut -c1-300)" >> $R
done
git -C /repo worktree remove --force $WT
rm -rf /tmp/ver_out_$ID /tmp/ver_$ID.*
python3 /verif/tools/seed_meta.py $DST
cat $R
