#!/usr/bin/env python3
"""Fold /verif/seeded/<id>/verify.log into meta.json['verified'] (what was confirmed
independently, by tools/verify_seed.sh)."""
import json, os, re, subprocess, sys

def main(d):
    log = open(os.path.join(d, "verify.log")).read()
    mp = os.path.join(d, "meta.json")
    try:
        meta = json.load(open(mp))
    except Exception:
        meta = {}
    if not isinstance(meta, dict):
        meta = {"original_meta": meta}
    v = {"repo_head": subprocess.check_output(["git", "-C", "/repo", "rev-parse", "--short", "HEAD"]).decode().strip()}
    m = re.search(r"suite: (.*)", log)
    v["suite"] = (re.search(r"\d+ passed", m.group(1)).group(0) if m and re.search(r"\d+ passed", m.group(1)) else "not run") + (", failures" if m and "failed" in m.group(1) else "")
    o = re.search(r"demo_original_exit=(\d+)", log); c = re.search(r"demo_changed_exit=(\d+)", log)
    v["patch_applies"] = "patch_applies=yes" in log
    v["demo"] = f"original exit {o.group(1) if o else '?'} / changed exit {c.group(1) if c else '?'}"
    v["checks"] = {}
    for mm in re.finditer(r"check=(\w+) exit=(\d+) violation_lines=(\d+)\s*(?:fresh violations by clause: (\{.*?\}))?", log):
        v["checks"][mm.group(1)] = {"exit": int(mm.group(2)), "violation_lines": int(mm.group(3)), "clauses": json.loads(mm.group(4)) if mm.group(4) else {}}
    old = meta.get("verified", {})
    if old.get("note"):
        v["note"] = old["note"]
    meta["verified"] = v
    json.dump(meta, open(mp, "w"), indent=1)

if __name__ == "__main__":
    for d in sys.argv[1:]:
        main(d)
