#!/bin/bash
# Smoke test of every check on ~60 cases spread over its enumeration (no evidence is kept):
# catches harness errors before a commit.  usage: tools/smoke.sh [ids...]
cd "$(dirname "$0")/.."
ids=${@:-C01 C02 C03 C04 C05 C06 C07 C08 C09 C10 C11 C12 C13 C14 C15 C16 C17 C18 C19 C20}
rc=0
for id in $ids; do
  out=$(VERIF_OUT=/tmp/smoke_out VERIF_NO_SELFTEST=1 ./check $id --spread 60 2>&1); r=$?
  line=$(echo "$out" | grep -m1 "^$id tier")
  echo "$id exit=$r ${line:0:150} $(echo "$out" | grep -m1 HARNESS | cut -c1-150)"
  [ $r -ne 0 ] && rc=1
done
rm -rf /tmp/smoke_out
exit $rc
