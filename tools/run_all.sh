#!/bin/bash
# usage: tools/run_all.sh [tier] [ids...]   — runs the checks sequentially, prints one line each
tier=${1:-quick}; shift
ids=${@:-C01 C02 C03 C04 C05 C06 C07 C08 C09 C10 C11 C12 C13 C14 C15 C16 C17 C18 C19 C20}
cd "$(dirname "$0")/.."
for id in $ids; do
  s=$(date +%s)
  out=$(./check $id --tier $tier 2>&1); rc=$?
  e=$(( $(date +%s) - s ))
  echo "$id tier=$tier seed=${VERIF_SEED:-0} exit=$rc wall=${e}s known_lines=$(echo "$out" | grep -c '^KNOWN-FINDING') viol_lines=$(echo "$out" | grep -c '^VIOLATION') $(echo "$out" | grep -m1 'HARNESS-ERROR' | cut -c1-120)"
done
