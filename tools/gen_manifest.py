#!/usr/bin/env python3
"""Regenerate MANIFEST.json from the table below (keeps it schema-valid at all times)."""
import json, os, sys

ROOT = os.path.dirname(os.path.dirname(os.path.abspath(__file__)))

# id -> (engine, design_ref, technique, level text, level note)
CHECKS = {}

def add(pid, engine, ref, technique, text, note):
    CHECKS[pid] = (engine, ref, technique, text, note)

add("C03", "A-product", "DESIGN.md 2/C03",
    "bounded exhaustive enumeration of the input product space (explicit-state, on the real solver), invariants on every point",
    "Every point of the finite product fabric x regime x velocity-gradient alphabet x volume letters x orientation sets "
    "(orbit-closed 408-letter alphabet, the 24 cube rotations with exact zero invariants, tilings to 1e5 grains) x scale x "
    "parameter letters is executed on pydrex.core.derivatives and the manifold invariants (no exception, finite, skew spin, "
    "zero net volume rate, zero-volume grains inert, linearity in M* and phi, growth sign) are evaluated on every one. "
    "This is a coverage statement over the alphabet, not a sample; continuous inputs off the alphabet are not covered.",
    "Trusts numpy linear algebra and the short reference model ref/drex_ref.py (only for the energy scale and the growth-sign clause).")


add("C01", "B-history", "DESIGN.md 2/C01",
    "explicit-state BFS over update histories on real Mineral objects (all sequences to a depth), invariant on every state",
    "Every sequence of <=2 (quick) / <=3 (thorough) update letters (6 flows x 2 strain increments) from every root (fabric x accepted regime x <=1 deviation "
    "over texture, volumes, grain count, parameters), plus long chains of 1..100 updates and all <=3-part compositions of a span, is executed on the real "
    "Mineral.update_orientations; after every transition the new snapshot is checked against the stated validity invariant, and earlier snapshots are content-hashed "
    "(append-only). Coverage statement over histories up to the depth bound; n_grains <= 8 in histories.",
    "Trusts numpy; strain accounting by quadrature of the largest |principal strain rate|.")
add("C02", "A-product", "DESIGN.md 2/C02",
    "bounded exhaustive enumeration of the input product space against a reference model (compiled and interpreted solver)",
    "Every point of fabric x regime x gradient alphabet x volume letters x parameter settings x the orbit-closed orientation alphabet is evaluated on "
    "pydrex.core.derivatives and compared grain by grain with a tensor-form reference model of the published D-Rex equations; the default slice and a full-parameter "
    "core are repeated on the interpreted source (NUMBA_DISABLE_JIT=1 child processes).",
    "Trusts ref/drex_ref.py (~60 lines, written from the papers) and numpy einsum; tolerance law 1e-11 + 1e-13/activity.")
add("C04", "A-product + B-history(twin)", "DESIGN.md 2/C04",
    "exhaustive product x all frame rotations / two-fold assignments (rates); BFS over update histories with a lock-step transformed twin (textures)",
    "Rates: every case of the product is re-evaluated in every frame of the 27-letter frame alphabet and for all 64 two-fold assignments of 3-grain sets. "
    "Textures: every update sequence to depth 2/3 is executed in lock-step on a mineral and on its rotated-frame or lattice-equivalent twin and compared after every update "
    "(bisimulation along every explored path); grains touching the discontinuous grain-boundary-sliding threshold or the zero-slip guard are gated and counted.",
    "Observation of the apply_gbs / derivatives seams is used only to gate comparisons, never to decide; ODE bound from the statement.")
add("C10", "A-product", "DESIGN.md 2/C10",
    "bounded exhaustive enumeration of assemblages x orderings x textures x frames against a reference model",
    "All assemblages, every ordering of minerals and phases, fraction letters, texture/volume letters, snapshot counts, stiffness sets and frame rotations are "
    "run through pydrex.voigt_averages and compared with an einsum reference; mismatch cases must raise ValueError.",
    "Trusts ref/voigt_ref.py and numpy einsum.")
add("C11", "A-product", "DESIGN.md 2/C11",
    "basis-exhaustive enumeration of linear maps (all 81/36 index tuples, 21 unit matrices, all pairwise sums) and all ordered rotation pairs",
    "All maps in pydrex.tensors are linear, so they are decided on a basis plus sums; rotations compose over all ordered pairs of the frame alphabet; projectors are built column by column; "
    "polar decomposition and invariants over a sharp matrix alphabet incl. singular letters.",
    "Trusts ref/tensors_ref.py and numpy.linalg.")
add("C12", "A-product", "DESIGN.md 2/C12",
    "bounded exhaustive enumeration of tensors x frame rotations with closed-form and metamorphic oracles",
    "Built-in tensors, a 2^9 grid of positive-definite orthorhombic tensors and Voigt averages of texture letters are decomposed in every frame of the alphabet; "
    "K, G, percent anisotropy against closed forms, frame independence (gated on eigenvalue gaps as the statement allows), orthorhombic identities.",
    "Trusts ref/elastic_ref.py; calls a NaN-initialising copy of elasticity_components so that unassigned outputs are visible.")
add("C13", "A-product", "DESIGN.md 2/C13",
    "bounded exhaustive enumeration of orientation sets x axes x frames x permutations x relabellings (all n!, all 4^n for small n)",
    "Every orientation-set letter is crossed with every frame rotation; inside each case all permutations (n<=4) and all two-fold relabellings (n<=3) are enumerated; "
    "finite_strain over F letters x the full left x right rotation product.",
    "Trusts numpy eigh / math.fsum reference scatter matrices.")
add("C15", "A-product + C-environment", "DESIGN.md 2/C15",
    "exhaustive enumeration of shapes/volume letters with the random source owned by the harness (all answers of a controlled generator incl. edge values)",
    "With np.random.default_rng replaced by a prescribed-variates generator, the sampling law becomes an exact counting statement on midpoint grids and the zero-volume clause a statement over every legal variate "
    "(0.0, 1-2^-53, every cumulative boundary and its float neighbours); all malformed shape combinations of rank 1..5 are enumerated.",
    "If the RNG seam is not observable the controlled clauses are skipped (reported), never failed.")
add("C17", "B-history", "DESIGN.md 2/C17",
    "explicit-state exploration of save/load operation sequences on a real NPZ archive against a dict reference model (all save orders, all load orders)",
    "Sets of 1..4 (thorough ..9) minerals are saved under colliding postfix letters in every order and loaded in every order through both loaders; after every operation the "
    "archive key set and every recovered snapshot (bitwise) are compared with the reference; corrupt states and non-NPZ names must be rejected without writing.",
    "Trusts numpy.load for reading back key sets.")
add("C19", "A-product + B-history(files)", "DESIGN.md 2/C19",
    "exhaustive enumeration of key subsets of generated TOML configurations and of every declared preset field",
    "Every subset of optional [output]/[input] keys, all <=2 (thorough <=3) removals of [parameters] keys, three input modes, phase lists and fabrics are generated from a complete template "
    "and parsed; omitted keys must take documented defaults; single-fault configurations must raise ConfigError; every preset declaration is read from the AST and compared.",
    "Documented defaults quoted from the repository's spec.toml/docstrings.")
add("C20", "A-product", "DESIGN.md 2/C20",
    "bounded exhaustive enumeration of sign/zero point letters, orientation x hkl x axes strings, unit vectors, and kernels x data sets x grids",
    "Conversions on all 26 sign/zero directions x radii plus generic letters; poles on the whole orientation alphabet x hkl x the six axes strings; Lambert on 1392 unit vectors; "
    "point density on 5 kernels x 14 data sets x 3 grids x weights x axial with permutations and sign flips.",
    "Kernel formulas of pydrex.stats are trusted for the un-clipped reference (the statement does not define them).")


add("C05", "B-history(twin)", "DESIGN.md 2/C05",
    "explicit-state BFS over update histories with a lock-step twin driven by k.L on a 1/k time axis, all 8 k letters",
    "Every update sequence to depth 2/3 from every root is executed on a mineral and on its rescaled twin for each k in {1e-16..1e3}; stored snapshots and returned F are compared after every update.",
    "Statement-level ODE bound for the verdict; observed maximum reported; derivatives seam observed only.")
add("C06", "B-history", "DESIGN.md 2/C06",
    "exhaustive enumeration of (F0, flow, mineral, partition) with every partition of the span replayed on the real update against a reference integrator",
    "All 5 x 8 (F0, flow) pairs x fabric x regime x <=1 mineral deviation; all 10 partitions of the span; every intermediate and final F is compared with expm / DOP853(rtol 1e-12); update_all over all assemblages and orders.",
    "Trusts scipy expm / DOP853 (cross-validated against each other in warmup).")
add("C07", "A-product + B-history", "DESIGN.md 2/C07",
    "exhaustive enumeration of regime / phase / fabric ordinals on derivatives; BFS over null-forcing histories; rejected updates with pre-histories",
    "All regime ordinals -1..9 x fabrics, all (phase, fabric) pairs incl. out-of-range; all sequences to depth 2/3 of null-forcing updates (zero gradient, viscosity-bound regimes, M*=0) with invariance and F reference checked on every transition; "
    "rejected updates (incl. a regime turning unsupported mid-interval) must raise and leave the history untouched.",
    "F reference as C06.")
add("C08", "B-history(twin) + C-environment(interleavings)", "DESIGN.md 2/C08",
    "BFS with single-phase / permuted-assemblage twins; stateless DFS over ALL interleavings of per-mineral update sequences (6, 90)",
    "Every update sequence to depth 2/3 is run on a mineral inside a two-phase assemblage and on its single-phase twin with phi.M*; all mineral orders of update_all; every interleaving of 2x2 and 3x2 (thorough 2x3) updates compared bitwise with the first schedule; schedule count cross-checked against the multinomial closed form.",
    "ODE bound for (a)-(c), bitwise for interleavings and identical twins.")
add("C09", "A-product + B-history", "DESIGN.md 2/C09",
    "full product over the apply_gbs kernel alphabet (threshold ties, ulp neighbours) against a numpy restatement; BFS over update histories with a recording seam",
    "Kernel: 7 chi x 5 n x 12 volume letters x 3 orientation-set pairs. Histories: all sequences to depth 2/3 from roots with strongly non-uniform volumes; every apply_gbs call of every update is observed.",
    "Seam-dependent clauses are skipped (reported) if the seam disappears; the black-box floor bound is always checked.")


add("C14", "A-product + C-environment(virtual pool)", "DESIGN.md 2/C14",
    "exhaustive product over systems x sets x frames x permutations x relabellings; stateless DFS over ALL completion orders of a virtual process pool for W = 1..16, bound to the real pool by conformance runs",
    "Scalar clauses on every lattice system, set letter, frame rotation, permutation and symmetry relabelling; the theoretical density on every 1-degree bin. Batched variant: for stacks of 1..5 snapshots and every worker count 1..16 every completion order of the virtual pool "
    "(schedule count cross-checked against an independent recurrence) is executed through pool= and through the module-level Pool factory; real multiprocessing.Pool runs must equal the model behaviour (traces_validated_against_impl).",
    "The virtual pool encodes the documented ordering contracts of multiprocessing.Pool; reference angles only count pairs near a histogram bin edge.")
add("C16", "B-history(files)", "DESIGN.md 2/C16",
    "deviation-bounded exhaustive enumeration of (schema, delimiter, marker, fills, cells, rows) round trips on real files against a typed-row reference model, plus the single-fault list",
    "All points with <=2 (thorough <=3) axes off their default over ten axes (351 type tuples incl. all 1-3 field tuples, 6 delimiters, 5 markers, fill and cell letters per type incl. YAML-hostile strings, row counts, containers); every single-fault corruption through save, header and on-disk edits must raise SCSVError.",
    "Reference model ref/scsv_ref.py decides representability and the expected read-back.")


add("C18", "A-product", "DESIGN.md 2/C18",
    "bounded exhaustive enumeration of flows x axis pairs x parameters x a 7^3 point grid (Jacobian), and of end points on a 10x10 grid x boxes x strain limits x resampling letters (pathlines), against finite-difference / DOP853 references",
    "Every grid point of every (flow, axis pair, parameter) letter: gradient callable vs Richardson-extrapolated central differences of the velocity callable, trace, axis conventions; every grid end point x box x strain x steps letter: a pathline is returned, ends at the final location at t=0, "
    "increasing stamps, follows an independent DOP853 backward integration, stays inside, bounded accumulated strain; strain_increment on the gradient alphabet x dt x scales.",
    "Reference: scipy DOP853 rtol 1e-10; budgets on calls/CPU per pathline turn non-termination into a reported violation.")

SUFFIX = (
    " The complete, current alphabets and bounds of each run are recorded by the run itself in the evidence file "
    "(coverage.rule, coverage.bound, coverage.alphabets); since the detection experiments they also contain "
    "unusual-but-legal argument forms (integer-typed and non-C-contiguous arrays, callables that reuse one output "
    "buffer, intervals run backwards in time, clocks far from zero, sizes well above the defaults) and call "
    "sequences that expose state carried between calls - see DESIGN.md 7.5b."
)
NOT_YET = {}

def main():
    props = [json.loads(l) for l in open(os.path.join(ROOT, "properties.jsonl"))]
    checks = []
    na = []
    for p in props:
        pid = p["id"]
        if pid in CHECKS:
            engine, ref, tech, text, note = CHECKS[pid]
            checks.append({
                "property_id": pid,
                "quick_cmd": f"./check {pid} --tier quick",
                "thorough_cmd": f"./check {pid} --tier thorough",
                "evidence_file": f"/verif/evidence/{pid}.json",
                "replay_cmd_template": f"./check {pid} --replay {{path}}",
                "engine": engine,
                "level_claimed": {"category": "model_checking", "text": text + SUFFIX, "design_ref": ref},
                "level_note": note,
                "technique": tech,
            })
        else:
            na.append({"property_id": pid, "reason": NOT_YET.get(pid, "check not built yet in this session (planned in DESIGN.md section 2; not a statement that model checking cannot apply)")})
    man = {
        "version": 1,
        "setup_cmd": "/venv/bin/python -m mc.selftest",
        "hooks": {
            "guard": "PYDREX_VERIF",
            "enable": "no source hooks: all seams are module attributes replaced from the harness; ./check exports PYDREX_VERIF=1 (unused by the source)",
            "baseline_off_cmd": "cd /repo && /venv/bin/python -m pytest -ra -q -p no:cacheprovider --timeout=900 --continue-on-collection-errors",
            "source_commits": [],
            "add_only": True,
        },
        "engines": [
            {"name": "A-product", "path": "mc/runner.py + mc/alph.py", "serves_properties": [p for p, c in CHECKS.items() if c[0].startswith("A")], "kind_free_text": "exhaustive product explorer over finite orbit-closed alphabets, deviation-ordered, on the real functions"},
            {"name": "B-history", "path": "mc/runner.py + mc/hist.py", "serves_properties": [p for p, c in CHECKS.items() if c[0].startswith("B")], "kind_free_text": "explicit-state BFS over operation sequences on real objects with reference model / twin"},
            {"name": "C-environment", "path": "mc/runner.py + mc/env.py", "serves_properties": [p for p, c in CHECKS.items() if c[0].startswith("C")], "kind_free_text": "stateless DFS over environment answers (virtual pool completion orders, controlled RNG)"},
        ],
        "checks": checks,
        "not_applicable": na,
        "notes": "All checks run /venv/bin/python against /repo/src (editable install): nothing is cached between runs. VERIF_SEED changes only the generic letters of the alphabets; every run enumerates its alphabet completely.",
    }
    if not na:
        man.pop("not_applicable")
    with open(os.path.join(ROOT, "MANIFEST.json"), "w") as f:
        json.dump(man, f, indent=1)
        f.write("\n")
    try:
        import jsonschema
        jsonschema.validate(man, json.load(open("/root/.vp/MANIFEST.schema.json")))
        print("MANIFEST valid:", len(checks), "checks,", len(na), "not claimed")
    except ImportError:
        print("written (jsonschema unavailable)")

if __name__ == "__main__":
    main()
