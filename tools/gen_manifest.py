#!/usr/bin/env python3
"""Regenerate MANIFEST.json from the table below (keeps it schema-valid at all times)."""
import json, os, sys

ROOT = os.path.dirname(os.path.dirname(os.path.abspath(__file__)))

# id -> (engine, design_ref, technique, level text, level note)
CHECKS = {}

def add(pid, engine, ref, technique, text, note):
    CHECKS[pid] = (engine, ref, technique, text, note)

add("C03", "A-product", "DESIGN.md 2/C03",
    "bounded exhaustive enumeration of the input product space (explicit-state, on the real solver), invariants on every point",
    "Every point of the finite product fabric x regime x velocity-gradient alphabet x volume letters x orientation sets "
    "(orbit-closed 408-letter alphabet, the 24 cube rotations with exact zero invariants, tilings to 1e5 grains) x scale x "
    "parameter letters is executed on pydrex.core.derivatives and the manifold invariants (no exception, finite, skew spin, "
    "zero net volume rate, zero-volume grains inert, linearity in M* and phi, growth sign) are evaluated on every one. "
    "This is a coverage statement over the alphabet, not a sample; continuous inputs off the alphabet are not covered.",
    "Trusts numpy linear algebra and the short reference model ref/drex_ref.py (only for the energy scale and the growth-sign clause).")

NOT_YET = {}

def main():
    props = [json.loads(l) for l in open(os.path.join(ROOT, "properties.jsonl"))]
    checks = []
    na = []
    for p in props:
        pid = p["id"]
        if pid in CHECKS:
            engine, ref, tech, text, note = CHECKS[pid]
            checks.append({
                "property_id": pid,
                "quick_cmd": f"./check {pid} --tier quick",
                "thorough_cmd": f"./check {pid} --tier thorough",
                "evidence_file": f"/verif/evidence/{pid}.json",
                "replay_cmd_template": f"./check {pid} --replay {{path}}",
                "engine": engine,
                "level_claimed": {"category": "model_checking", "text": text, "design_ref": ref},
                "level_note": note,
                "technique": tech,
            })
        else:
            na.append({"property_id": pid, "reason": NOT_YET.get(pid, "check not built yet in this session (planned in DESIGN.md section 2; not a statement that model checking cannot apply)")})
    man = {
        "version": 1,
        "setup_cmd": "/venv/bin/python -m mc.selftest",
        "hooks": {
            "guard": "PYDREX_VERIF",
            "enable": "no source hooks: all seams are module attributes replaced from the harness; ./check exports PYDREX_VERIF=1 (unused by the source)",
            "baseline_off_cmd": "cd /repo && /venv/bin/python -m pytest -ra -q -p no:cacheprovider --timeout=900 --continue-on-collection-errors",
            "source_commits": [],
            "add_only": True,
        },
        "engines": [
            {"name": "A-product", "path": "mc/runner.py + mc/alph.py", "serves_properties": [p for p, c in CHECKS.items() if c[0].startswith("A")], "kind_free_text": "exhaustive product explorer over finite orbit-closed alphabets, deviation-ordered, on the real functions"},
            {"name": "B-history", "path": "mc/runner.py + mc/hist.py", "serves_properties": [p for p, c in CHECKS.items() if c[0].startswith("B")], "kind_free_text": "explicit-state BFS over operation sequences on real objects with reference model / twin"},
            {"name": "C-environment", "path": "mc/runner.py + mc/env.py", "serves_properties": [p for p, c in CHECKS.items() if c[0].startswith("C")], "kind_free_text": "stateless DFS over environment answers (virtual pool completion orders, controlled RNG)"},
        ],
        "checks": checks,
        "not_applicable": na,
        "notes": "All checks run /venv/bin/python against /repo/src (editable install): nothing is cached between runs. VERIF_SEED changes only the generic letters of the alphabets; every run enumerates its alphabet completely.",
    }
    if not na:
        man.pop("not_applicable")
    with open(os.path.join(ROOT, "MANIFEST.json"), "w") as f:
        json.dump(man, f, indent=1)
        f.write("\n")
    try:
        import jsonschema
        jsonschema.validate(man, json.load(open("/root/.vp/MANIFEST.schema.json")))
        print("MANIFEST valid:", len(checks), "checks,", len(na), "not claimed")
    except ImportError:
        print("written (jsonschema unavailable)")

if __name__ == "__main__":
    main()
