#!/usr/bin/env python3
"""Apply each registered textual mutant in a scratch worktree of /repo (never in /repo),
run the listed checks against it (outputs redirected away from /verif/evidence), and
record exit codes / violation clauses in /verif/mutants/results.json.

usage: tools/run_mutants.py [name-substring ...]
"""
import json
import os
import re
import subprocess
import sys

ROOT = os.path.dirname(os.path.dirname(os.path.abspath(__file__)))
WT = os.environ.get("VERIF_WT", "/tmp/wt_mutants")

M = []


def mut(name, file, old, new, checks, note=""):
    M.append(dict(name=name, file=file, old=old, new=new, checks=checks, note=note))


C = "src/pydrex/core.py"
MI = "src/pydrex/minerals.py"
U = "src/pydrex/utils.py"
D = "src/pydrex/diagnostics.py"
S = "src/pydrex/stats.py"

mut("crss_olivineB_row", C, "return np.array([3, 2, 1, np.inf])", "return np.array([3, 1, 2, np.inf])", ["C02", "C03"])
mut("slip_exponent_n_not_n-1", C, "slip_rates[i_min] = ratio_min * np.abs(ratio_min) ** (deformation_exponent - 1)", "slip_rates[i_min] = ratio_min * np.abs(ratio_min) ** (deformation_exponent)", ["C02", "C03"])
mut("yield_factor_only_on_rotation", C, "strain_residuals = 0.3 * (mean_energy - strain_energies)", "strain_residuals = (mean_energy - strain_energies)", ["C02"])
mut("density_exponent_n_over_p", C, "            stress_exponent / deformation_exponent\n        )", "            deformation_exponent / stress_exponent\n        )", ["C02", "C03"])
mut("slip_invariant_index_transposed", C, "invariants[1] += strain_rate[i, j] * orientation[0, i] * orientation[2, j]", "invariants[1] += strain_rate[i, j] * orientation[0, j] * orientation[2, i]", ["C02", "C04"], "symmetric D: equivalent? (D symmetric makes this an identity)")
mut("schmid_tensor_index", C, "+ slip_rates[1] * orientation[0, i] * orientation[2, j]", "+ slip_rates[1] * orientation[2, i] * orientation[0, j]", ["C02", "C04"])
mut("energy_without_abs", C, ") * np.abs(slip_rates[i] * slip_rate_softest) ** (", ") * (slip_rates[i] * slip_rate_softest) ** (", ["C02", "C03", "C04"])
mut("mean_energy_unweighted", C, "        mean_energy = np.sum(fractions * strain_energies)\n        # Strain energy residual.", "        mean_energy = np.mean(strain_energies)\n        # Strain energy residual.", ["C02", "C03"])
mut("fractions_diff_without_fractions", C, "fractions_diff = volume_fraction * gbm_mobility * fractions * strain_residuals\n        return orientations_diff, fractions_diff\n    elif regime == DeformationRegime.sliding_dislocation", "fractions_diff = volume_fraction * gbm_mobility * strain_residuals / n_grains\n        return orientations_diff, fractions_diff\n    elif regime == DeformationRegime.sliding_dislocation", ["C02", "C03"])
mut("spin_sign_flip", C, "(velocity_gradient[s, r] - velocity_gradient[r, s])\n            - (deformation_rate", "(velocity_gradient[r, s] - velocity_gradient[s, r])\n            - (deformation_rate", ["C02", "C04"])
mut("denominator_guard_removed", C, "    if -1e-15 < denominator < 1e-15:\n        return 0.0\n", "", ["C03"])
mut("unsupported_regime_falls_through", C, '    elif regime == DeformationRegime.sliding_dislocation:\n        raise ValueError("this deformation mechanism is not yet supported.")', "    elif regime == DeformationRegime.sliding_dislocation:\n        return np.zeros((n_grains, 3, 3)), np.zeros(n_grains)", ["C07"])
mut("maxvisc_small_drift", C, "    elif regime == DeformationRegime.max_viscosity:\n        # Do absolutely nothing, all derivatives are zero.\n        return (\n            np.zeros((n_grains, 3, 3)),", "    elif regime == DeformationRegime.max_viscosity:\n        # Do absolutely nothing, all derivatives are zero.\n        return (\n            1e-3 * orientations,", ["C07"])

mut("F_times_L", MI, "deformation_gradient_diff = velocity_gradient @ deformation_gradient", "deformation_gradient_diff = deformation_gradient @ velocity_gradient", ["C06"])
mut("L_at_time_start", MI, "            velocity_gradient = get_velocity_gradient(t, position)", "            velocity_gradient = get_velocity_gradient(time_start, position)", ["C06"])
mut("position_at_time_end", MI, "            position = get_position(t)", "            position = get_position(time_end)", ["C06"])
mut("update_all_chains_F", MI, "            deformation_gradient=deformation_gradient,\n            get_velocity_gradient=get_velocity_gradient,\n            pathline=pathline,", "            deformation_gradient=deformation_gradient if i == 0 else new_deformation_gradient,\n            get_velocity_gradient=get_velocity_gradient,\n            pathline=pathline,", ["C06"])
mut("append_before_solver_loop", MI, '        perform_step(solver)\n        while solver.status == "running":', '        self.orientations.append(self.orientations[-1])\n        self.fractions.append(self.fractions[-1])\n        perform_step(solver)\n        self.orientations.pop()\n        self.fractions.pop()\n        while solver.status == "running":', ["C07"])
mut("volume_rates_not_rescaled", MI, "                    fractions_diff * strain_rate_max,", "                    fractions_diff,", ["C05"])
mut("D_not_nondimensionalised", MI, "                strain_rate=strain_rate / strain_rate_max,", "                strain_rate=strain_rate,", ["C05"])
mut("absolute_first_step", MI, 'first_step=kwargs.pop("first_step", np.abs(time_end - time_start) * 1e-1),', 'first_step=kwargs.pop("first_step", min(1e-1, np.abs(time_end - time_start))),', ["C05"], "may be invisible: the solver adapts the step (informational)")
mut("nondimensionalise_by_D02", MI, "strain_rate_max = np.abs(la.eigvalsh(strain_rate)).max()", "strain_rate_max = max(np.abs(strain_rate[0, 2]), 1e-3)", ["C04", "C05"])
mut("phase_fraction_index0", MI, '                volume_fraction = params["phase_fractions"][\n                    params["phase_assemblage"].index(self.phase)\n                ]', '                volume_fraction = params["phase_fractions"][0]', ["C08"])
mut("gbs_reference_is_current_step", MI, "                self.orientations[-1],\n                self.n_grains,\n            )\n            solver.y[9:]", "                orientations.copy(),\n                self.n_grains,\n            )\n            solver.y[9:]", ["C09"])
mut("voigt_no_transpose", MI, "mineral.orientations[i][n, ...].transpose(),", "mineral.orientations[i][n, ...],", ["C10"])
mut("voigt_last_snapshot_only", MI, "    for i in range(n_steps):\n        for mineral in minerals:", "    for i in range(n_steps - 1, n_steps):\n        for mineral in minerals:", ["C10"])
mut("save_meta_order", MI, "[self.phase, self.fabric, self.regime], dtype=np.uint8", "[self.fabric, self.phase, self.regime], dtype=np.uint8", ["C17"])
mut("save_append_mode_w", MI, 'archive = ZipFile(filename, mode="a", allowZip64=True)', 'archive = ZipFile(filename, mode="w", allowZip64=True)', ["C17"])

mut("gbs_mask_le", U, "mask = fractions < (gbs_threshold / n_grains)", "mask = fractions <= (gbs_threshold / n_grains)", ["C09"])
mut("gbs_floor_chi", U, "    fractions[mask] = gbs_threshold / n_grains", "    fractions[mask] = gbs_threshold", ["C09"])
mut("gbs_mask_inverted", U, "    orientations[mask, :, :] = orientations_prev[mask, :, :]", "    orientations[~mask, :, :] = orientations_prev[~mask, :, :]", ["C09"])
mut("extract_vars_no_clip", U, "orientations = y[9 : n_grains * 9 + 9].reshape((n_grains, 3, 3)).clip(-1, 1)", "orientations = y[9 : n_grains * 9 + 9].reshape((n_grains, 3, 3))", ["C01"], "clip is a safety net: may be invisible")
mut("extract_vars_no_renormalise", U, "    fractions /= fractions.sum()\n    return deformation_gradient, orientations, fractions", "    return deformation_gradient, orientations, fractions", ["C01", "C09"])
mut("strain_increment_no_abs_dt", U, "        np.abs(dt)\n        * np.abs(", "        dt\n        * np.abs(", ["C18"])

mut("mindices_imap_unordered", D, "            for i, out in enumerate(pool.imap(_run, orientation_stack)):\n                m_indices[i] = out\n    return m_indices", "            for i, out in enumerate(pool.imap_unordered(_run, orientation_stack)):\n                m_indices[i] = out\n    return m_indices", ["C14"])
mut("mindices_default_pool_unordered", D, "            for i, out in enumerate(pool.imap(_run, orientation_stack)):\n                m_indices[i] = out\n    else:", "            for i, out in enumerate(pool.imap_unordered(_run, orientation_stack)):\n                m_indices[i] = out\n    else:", ["C14"])
mut("mindex_no_half", D, "return (θmax / (2 * len(misorientations_count))) * np.sum(", "return (θmax / (len(misorientations_count))) * np.sum(", ["C14"])
mut("hist_density_false", S, "range=(0, θmax), density=True)", "range=(0, θmax), density=False)", ["C14"])
mut("finite_strain_FtF", D, "        deformation_gradient @ deformation_gradient.transpose(),", "        deformation_gradient.transpose() @ deformation_gradient,", ["C13"])
mut("resample_uniform", S, 'count_less = np.searchsorted(cumfrac, rng.random(n_samples), side="right")', "count_less = rng.integers(0, len(cumfrac), n_samples)", ["C15"])


def sh(*a, **k):
    return subprocess.run(*a, **k, capture_output=True, text=True)


def main():
    sel = sys.argv[1:]
    head = sh(["git", "-C", "/repo", "rev-parse", "HEAD"]).stdout.strip()
    if not os.path.isdir(WT):
        sh(["git", "-C", "/repo", "worktree", "add", "--detach", WT, "HEAD"])
    sh(["git", "-C", WT, "checkout", "--detach", head])
    outdir = "/tmp/out_mutants"
    respath = os.path.join(ROOT, "mutants", "results.json")
    os.makedirs(os.path.dirname(respath), exist_ok=True)
    results = json.load(open(respath)) if os.path.exists(respath) else {}
    for m in M:
        if sel and not any(s in m["name"] for s in sel):
            continue
        sh(["git", "-C", WT, "checkout", "--", "."])
        p = os.path.join(WT, m["file"])
        src = open(p).read()
        if m["old"] not in src:
            results[m["name"]] = {"error": "pattern not found", "repo_head": head[:7]}
            print(m["name"], "PATTERN NOT FOUND", flush=True)
            continue
        open(p, "w").write(src.replace(m["old"], m["new"], 1))
        rec = {"file": m["file"], "note": m["note"], "repo_head": head[:7], "checks": {}}
        for c in m["checks"]:
            env = dict(os.environ, VERIF_REPO=WT, VERIF_OUT=outdir, VERIF_NO_SELFTEST="1")
            r = sh([os.path.join(ROOT, "check"), c], env=env)
            cl = re.search(r"fresh violations by clause: (\{.*\})", r.stdout)
            rec["checks"][c] = {"exit": r.returncode, "violation_lines": len(re.findall(r"^VIOLATION", r.stdout, re.M)), "clauses": json.loads(cl.group(1)) if cl else {}}
            print(m["name"], c, "exit", r.returncode, cl.group(1)[:160] if cl else "", flush=True)
        results[m["name"]] = rec
        json.dump(results, open(respath, "w"), indent=1, sort_keys=True)
    sh(["git", "-C", WT, "checkout", "--", "."])
    sh(["git", "-C", "/repo", "worktree", "remove", "--force", WT])
    sh(["rm", "-rf", outdir])


if __name__ == "__main__":
    main()
