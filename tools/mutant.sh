#!/bin/bash
# usage: tools/mutant.sh <name> <file-relative-to-repo> <python-regex-old> <new> -- <check ids...>
# Applies one textual mutation in a scratch worktree of /repo (never in /repo), runs the
# named checks against it with outputs redirected, prints one line per check, reverts.
name="$1"; file="$2"; old="$3"; new="$4"; shift 5
WT=${VERIF_WT:-/tmp/wt_main}
OUT=/tmp/out_main_$$
if [ ! -d "$WT" ]; then git -C /repo worktree add -q --detach "$WT" HEAD || exit 2; fi
git -C "$WT" checkout -q --detach $(git -C /repo rev-parse HEAD) 2>/dev/null
git -C "$WT" checkout -q -- .
python3 - "$WT/$file" "$old" "$new" <<'PY' || { echo "MUTANT $name: pattern not found"; exit 2; }
import sys,re
p,old,new=sys.argv[1:4]
s=open(p).read()
if old not in s: sys.exit(1)
s=s.replace(old,new,1)
open(p,'w').write(s)
PY
for id in "$@"; do
  VERIF_REPO=$WT VERIF_OUT=$OUT VERIF_NO_SELFTEST=1 /verif/check $id > $OUT.log 2>&1
  rc=$?
  nv=$(grep -c '^VIOLATION' $OUT.log)
  echo "MUTANT $name check=$id exit=$rc violation_lines=$nv $(grep -m1 'fresh violations by clause' $OUT.log)"
done
git -C "$WT" checkout -q -- .
rm -rf $OUT $OUT.log
