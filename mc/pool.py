"""A small crash-tolerant worker pool.

multiprocessing.Pool hangs forever when a worker dies (the task is lost), and the code
under check CAN kill the interpreter (numba aborts the process with a fatal error when
LAPACK is handed NaN, a broken build may segfault).  A model checker has to report that as
an outcome of the case, not hang.  Workers are forked from the (already warmed-up) parent,
talk over one Pipe each, and are watched through their process sentinels; the parent runs
no threads, so replacement workers can be forked at any time.
"""

import multiprocessing as mp
import os
import signal
from multiprocessing.connection import wait


RSS_LIMIT_MB = float(os.environ.get("VERIF_WORKER_RSS_MB", "1200"))


def _rss_mb():
    try:
        with open("/proc/self/statm") as f:
            return int(f.read().split()[1]) * os.sysconf("SC_PAGE_SIZE") / 1e6
    except Exception:
        return 0.0


def _loop(conn, fn, init):
    if init:
        init()
    while True:
        try:
            msg = conn.recv()
        except EOFError:
            break
        if msg is None:
            break
        i, key = msg
        # Every texture update leaks ~30 kB of native memory (scipy's LSODA; measured on
        # plain pydrex usage), i.e. gigabytes over 1e5 updates: a worker whose resident set
        # has grown past the limit retires after the current case and is replaced.
        retire = False
        try:
            r = fn(key)
            retire = _rss_mb() > RSS_LIMIT_MB
            conn.send((i, r, retire))
        except BrokenPipeError:
            break
        if retire:
            break
    os._exit(0)


KEY_CPU_LIMIT_S = float(os.environ.get("VERIF_KEY_CPU_S", "400"))


def _cpu_s(pid):
    try:
        with open(f"/proc/{pid}/stat") as f:
            parts = f.read().rsplit(")", 1)[1].split()
        return (int(parts[11]) + int(parts[12])) / os.sysconf("SC_CLK_TCK")
    except Exception:
        return 0.0


class Died:
    """Marker result: the worker process died while running this key (watchdog = it was
    killed by the parent because the key used more than KEY_CPU_LIMIT_S of CPU time)."""

    def __init__(self, exitcode, watchdog=False):
        self.exitcode = exitcode
        self.watchdog = watchdog

    def describe(self):
        if self.exitcode is not None and self.exitcode < 0:
            try:
                return "killed by signal " + signal.Signals(-self.exitcode).name
            except ValueError:
                return f"killed by signal {-self.exitcode}"
        return f"exit code {self.exitcode}"


def imap_unordered(fn, keys, jobs, init=None, per_key_timeout=None, should_stop=None):
    """Yield (index, result-or-Died) for every key, in completion order.  If should_stop()
    becomes true no further keys are handed out (running ones are drained)."""
    ctx = mp.get_context("fork")
    n = len(keys)
    nxt = 0
    live = {}  # conn -> [proc, current index or None]
    cpu0 = {}  # conn -> CPU seconds of the worker when its current key was handed out
    killed = set()

    def spawn():
        a, b = ctx.Pipe()
        p = ctx.Process(target=_loop, args=(b, fn, init), daemon=True)
        p.start()
        b.close()
        live[a] = [p, None]
        return a

    def feed(c):
        nonlocal nxt, n
        if should_stop is not None and nxt < n and should_stop():
            n = nxt  # nothing further is dispatched
        if nxt < n:
            live[c][1] = nxt
            cpu0[c] = _cpu_s(live[c][0].pid)
            c.send((nxt, keys[nxt]))
            nxt += 1
            return True
        live[c][1] = None
        return False

    for _ in range(max(1, min(jobs, n))):
        feed(spawn())
    done = 0
    while done < n:
        conns = [c for c, (p, i) in live.items() if i is not None]
        sent = {p.sentinel: c for c, (p, i) in live.items() if i is not None}
        ready = wait(conns + list(sent), timeout=15)
        # watchdog: a key that has burnt KEY_CPU_LIMIT_S of CPU is not going to finish
        for c in conns:
            p, i = live[c]
            if _cpu_s(p.pid) - cpu0.get(c, 0.0) > KEY_CPU_LIMIT_S:
                killed.add(c)
                p.kill()
        handled = set()
        for r in ready:
            c = r if r in live else sent.get(r)
            if c is None or c in handled or c not in live:
                continue
            handled.add(c)
            p, i = live[c]
            got = None
            try:
                if c.poll():
                    got = c.recv()
            except (EOFError, OSError):
                got = None
            if got is not None:
                done += 1
                yield got[0], got[1]
                if got[2]:  # the worker retires (memory): replace it
                    p.join(timeout=10)
                    if p.is_alive():
                        p.kill()
                    del live[c]
                    if nxt < n:
                        feed(spawn())
                    continue
                if not feed(c):
                    try:
                        c.send(None)
                    except Exception:
                        pass
                continue
            # no message: the process is gone (or the pipe broke)
            p.join(timeout=5)
            if p.is_alive():
                p.kill()
                p.join()
            del live[c]
            done += 1
            yield (i, Died(p.exitcode, watchdog=c in killed))
            if nxt < n:
                feed(spawn())
    for c, (p, i) in list(live.items()):
        try:
            c.send(None)
        except Exception:
            pass
    for c, (p, i) in list(live.items()):
        p.join(timeout=2)
        if p.is_alive():
            p.kill()


def run_isolated(fn, key, init=None):
    """Run fn(key) in a forked child; return its result or Died."""
    for i, r in imap_unordered(fn, [key], 1, init=init):
        return r
