"""Runner shared by all property checks.

A property module (props/cNN.py) provides

    PID, RULE, ASSUMPTIONS (list), BOUND (dict tier -> str)
    warmup()                      compile / import what every case needs (parent, before fork)
    gen_cases(tier, seed)         -> list of JSON-able case keys (the full enumeration, in
                                     order of deviation count: simplest first)
    run_case(key)                 -> dict, see `empty_result`
    optional finalize(agg, tier, seed) -> dict(extra evidence, 'viol': [...])

The runner enumerates *every* key (no sampling), deals them to forked workers, aggregates
counts, matches violations against known_findings.json, confirms unmatched violations by
replaying their case twice, writes replay artefacts and the evidence file.
"""

from __future__ import annotations

import argparse
import hashlib
import importlib
import json
import logging
import multiprocessing as mp
import os
import re
import subprocess
import sys
import time
import traceback

ROOT = os.path.dirname(os.path.dirname(os.path.abspath(__file__)))
# Output root (evidence/, replays/, .work/).  /verif unless VERIF_OUT is set, which only the
# mutation experiments do, so that runs against scratch worktrees never touch /verif/evidence.
OUT = os.environ.get("VERIF_OUT") or ROOT
MAX_REPLAY_FILES = 12
MAX_SAMPLES = 6

_MOD = None


def workdir(pid):
    """Per-check scratch directory (under /verif/.work, removed at the end of the run).
    Property modules that need files (SCSV, NPZ, TOML) create them here, in a
    sub-directory named after os.getpid() so that forked workers never collide."""
    d = os.path.join(OUT, ".work", pid, str(os.getpid()))
    os.makedirs(d, exist_ok=True)
    return d


def empty_result():
    return {
        "n": 0,  # implementation calls made by this case
        "states": 0,  # distinct states (inputs / reached object states) visited
        "trans": 0,  # transitions (operations applied to a state)
        "nontrivial": [],  # short hashable ids of the distinct non-trivial sub-cases
        "outcomes": [],  # short strings: distinct observed outcomes (vacuity detector)
        "clauses": {},  # clause -> number of times it was evaluated
        "viol": [],  # {"clause": str, "key": {..}, "detail": {..}}
        "obs": "",  # digest of everything observed (determinism self-test)
        "sample": None,
        "notes": {},  # name -> number, summed (or max if name starts with 'max_')
    }


def digest(*parts) -> str:
    h = hashlib.sha256()
    for p in parts:
        if hasattr(p, "tobytes"):
            h.update(p.tobytes())
        else:
            h.update(repr(p).encode())
    return h.hexdigest()[:16]


def jdump(x):
    return json.dumps(x, sort_keys=True, default=_jdefault)


def _jdefault(o):
    import numpy as np

    if isinstance(o, np.ndarray):
        return o.tolist()
    if isinstance(o, (np.floating,)):
        return float(o)
    if isinstance(o, (np.integer,)):
        return int(o)
    if isinstance(o, (np.bool_,)):
        return bool(o)
    if isinstance(o, complex):
        return [o.real, o.imag]
    if isinstance(o, bytes):
        return o.hex()
    return repr(o)


def quiet_pydrex():
    lg = logging.getLogger("pydrex")
    for h in lg.handlers:
        h.setLevel(logging.CRITICAL)
    import warnings

    warnings.filterwarnings("ignore")


def _init_worker():
    # `kill -USR1 <pid>` dumps the Python stack of a worker (debugging aid for hangs)
    try:
        import faulthandler
        import signal

        faulthandler.register(signal.SIGUSR1, all_threads=True)
    except Exception:
        pass


def _worker(key):
    try:
        r = _MOD.run_case(key)
        r["_key"] = key
        return r
    except BaseException:  # harness error, never a verdict
        return {"_key": key, "_harness_error": traceback.format_exc()}


def load_known(pid):
    path = os.path.join(ROOT, "known_findings.json")
    if not os.path.exists(path):
        return []
    with open(path) as f:
        data = json.load(f)
    return [e for e in data.get("findings", []) if e["property"] == pid]


def match_known(entries, v):
    """Return the first known-finding entry whose predicate matches violation v."""
    for e in entries:
        if e.get("clause") and e["clause"] != v["clause"]:
            continue
        ok = True
        for k, pat in e.get("match", {}).items():
            val = v["key"].get(k)
            if val is None or re.fullmatch(str(pat), str(val)) is None:
                ok = False
                break
        if ok:
            return e
    return None


def vid(v):
    return v["clause"] + "|" + jdump(v["key"])


def main(argv=None):
    global _MOD
    ap = argparse.ArgumentParser()
    ap.add_argument("pid")
    ap.add_argument("--tier", default=os.environ.get("VERIF_TIER", "quick"))
    ap.add_argument("--replay")
    ap.add_argument("--one")
    ap.add_argument("--jobs", type=int, default=int(os.environ.get("VERIF_JOBS", "16")))
    ap.add_argument("--limit", type=int, default=0, help="debug: only first N cases")
    ap.add_argument("--spread", type=int, default=0, help="debug: only N cases spread evenly over the enumeration")
    a = ap.parse_args(argv)
    pid = a.pid.upper()
    tier = a.tier if a.tier in ("quick", "thorough") else "quick"
    try:
        seed = int(os.environ.get("VERIF_SEED", "0"))
    except ValueError:
        seed = 0
    os.chdir(ROOT)
    t0 = time.time()

    if a.replay:
        with open(a.replay) as f:
            rep = json.load(f)
        seed = int(rep.get("seed", seed))
        tier = rep.get("tier", tier)
    os.environ["VERIF_SEED"] = str(seed)
    os.environ["VERIF_TIER"] = tier

    from mc import alph

    alph.configure(seed, tier)
    _MOD = importlib.import_module("props." + pid.lower())
    quiet_pydrex()

    if a.one:  # determinism self-test child: run one case, print its digest
        try:
            _MOD.warmup()
        except Exception:
            pass
        quiet_pydrex()
        r = _MOD.run_case(json.loads(a.one))
        print("OBS " + r["obs"])
        return 0

    if a.replay:
        return do_replay(pid, rep)

    work = os.path.join(OUT, ".work", pid)
    os.makedirs(work, exist_ok=True)

    keys = list(_MOD.gen_cases(tier, seed))
    if a.limit:
        keys = keys[: a.limit]
    if a.spread:  # debug / smoke test: N keys spread evenly over the enumeration
        step_ = max(1, len(keys) // a.spread)
        keys = keys[::step_]
    if not keys:
        print("HARNESS-ERROR no cases generated")
        return 2
    # canonical keys must be distinct: the enumeration never repeats a case
    canon = {jdump(k) for k in keys}
    if len(canon) != len(keys):
        print(f"HARNESS-ERROR duplicate case keys: {len(keys)} vs {len(canon)}")
        return 2

    # determinism self-test in a fresh process, concurrently with the exploration
    selftest = None
    if os.environ.get("VERIF_NO_SELFTEST") != "1":
        selftest = subprocess.Popen(
            [sys.executable, "-m", "mc.runner", pid, "--tier", tier, "--one", jdump(keys[0])],
            stdout=subprocess.PIPE,
            stderr=subprocess.PIPE,
            text=True,
            cwd=ROOT,
        )

    warm_error = None
    try:
        _MOD.warmup()
    except Exception as e:  # a broken implementation must fail in the cases, not here
        warm_error = f"{type(e).__name__}: {str(e)[:200]}"
        print(f"warmup raised {warm_error}; continuing (the cases decide)", flush=True)
    quiet_pydrex()
    t_warm = time.time() - t0

    agg = {
        "n": 0,
        "states": 0,
        "trans": 0,
        "clauses": {},
        "notes": {},
    }
    nontrivial = set()
    outcomes = set()
    samples = []
    viols = {}
    first_obs = None
    harness_errors = []

    jobs = max(1, min(a.jobs, len(keys)))
    from mc import pool as cpool

    done = 0
    known_early = load_known(pid)
    max_fresh = int(os.environ.get("VERIF_MAX_FRESH", "400"))
    fresh_seen = set()
    stopped_early = [False]

    def should_stop():
        # a tree that is broken badly enough to produce hundreds of distinct violations is
        # decided; stop dispatching (slow, failing cases would otherwise run for hours)
        if len(fresh_seen) >= max_fresh:
            stopped_early[0] = True
            return True
        return False

    for idx, r in cpool.imap_unordered(_worker, keys, jobs, init=_init_worker, should_stop=should_stop):
        done += 1
        if isinstance(r, cpool.Died) and r.watchdog:
            # the case burnt more CPU than any case of the unchanged tree by a wide margin
            # and was killed: coverage is incomplete (exhaustive: false); the properties
            # say nothing about run time, so this is reported, not a violation
            agg["notes"]["cases_killed_by_cpu_watchdog"] = agg["notes"].get("cases_killed_by_cpu_watchdog", 0) + 1
            stopped_early[0] = True
            continue
        if isinstance(r, cpool.Died):
            # the implementation killed the interpreter while running this case: that is an
            # outcome of the case (reported as a violation), not a reason to hang
            r = empty_result()
            r["_key"] = keys[idx]
            r["viol"].append({"clause": "process_died", "key": dict(keys[idx]) if isinstance(keys[idx], dict) else {"case": keys[idx]}, "detail": {"how": "worker process died while running this case"}})
            r["obs"] = "died"
            r["_died"] = True
        if "_harness_error" in r:
            harness_errors.append((r["_key"], r["_harness_error"]))
            continue
        if idx == 0:
            first_obs = r["obs"]
        agg["n"] += r["n"]
        agg["states"] += r["states"]
        agg["trans"] += r["trans"]
        for c, k in r["clauses"].items():
            agg["clauses"][c] = agg["clauses"].get(c, 0) + k
        for c, k in r["notes"].items():
            if c.startswith("max_"):
                agg["notes"][c] = max(agg["notes"].get(c, 0), k)
            else:
                agg["notes"][c] = agg["notes"].get(c, 0) + k
        nontrivial.update(r["nontrivial"])
        outcomes.update(r["outcomes"])
        if r["sample"] is not None and (
            len(samples) < MAX_SAMPLES // 2 or (done % max(1, len(keys) // 3) == 0 and len(samples) < MAX_SAMPLES)
        ):
            samples.append(r["sample"])
        for v in r["viol"]:
            v["case"] = r["_key"]
            viols.setdefault(vid(v), v)
            if match_known(known_early, v) is None:
                fresh_seen.add(vid(v))

    extra = {}
    if hasattr(_MOD, "finalize") and not harness_errors:
        fin = _MOD.finalize(agg, tier, seed) or {}
        for v in fin.pop("viol", []):
            v.setdefault("case", None)
            viols.setdefault(vid(v), v)
        extra.update(fin)

    if harness_errors:
        print(f"HARNESS-ERROR in {len(harness_errors)} case(s); first:")
        print(jdump(harness_errors[0][0]))
        print(harness_errors[0][1])
        return 2

    # ---- determinism self-test result
    det = "skipped"
    if selftest is not None:
        try:
            out, err = selftest.communicate(timeout=900)
        except subprocess.TimeoutExpired:
            selftest.kill()
            out, err = "", "timeout"
        m = re.search(r"^OBS (\S*)$", out, re.M)
        if not m:
            print("HARNESS-ERROR determinism self-test child failed:\n" + err[-2000:])
            return 2
        if m.group(1) != first_obs:
            print(
                f"HARNESS-ERROR nondeterministic observation for first case: "
                f"{first_obs} (here) vs {m.group(1)} (fresh process)"
            )
            return 2
        det = "first case bit-identical in a fresh process"

    # ---- known findings / violations
    known = load_known(pid)
    known_hit = {}
    fresh = []
    for k in sorted(viols):
        v = viols[k]
        e = match_known(known, v)
        if e is not None:
            known_hit.setdefault(e["id"], [e, 0])
            known_hit[e["id"]][1] += 1
        else:
            fresh.append(v)

    if os.environ.get("VERIF_DUMP_VIOL"):
        with open(os.environ["VERIF_DUMP_VIOL"], "w") as f:
            for k in sorted(viols):
                f.write(jdump({"clause": viols[k]["clause"], "key": viols[k]["key"], "known": match_known(known, viols[k]) is not None}) + "\n")

    for fid, (e, cnt) in sorted(known_hit.items()):
        print(f"KNOWN-FINDING: property={pid} {e['id']}: {e['text']} [{cnt} case(s) this run]")

    confirmed, vanished, unstable = [], [], 0
    if fresh:
        rdir = os.path.join(OUT, "replays", pid)
        os.makedirs(rdir, exist_ok=True)
        # one replay per (clause, first few keys): shortest first (enumeration order kept)
        per_clause = {}
        for v in fresh:
            per_clause.setdefault(v["clause"], []).append(v)
        chosen = []
        for c, vs in per_clause.items():
            chosen.extend(vs[: max(1, MAX_REPLAY_FILES // len(per_clause))])
        for v in chosen[:MAX_REPLAY_FILES]:
            path = os.path.join(rdir, hashlib.sha1(vid(v).encode()).hexdigest()[:12] + ".json")
            rep = {
                "property": pid,
                "seed": seed,
                "tier": tier,
                "clause": v["clause"],
                "vkey": v["key"],
                "case": v.get("case"),
                "detail": v.get("detail"),
                "replay": f"./check {pid} --replay {os.path.relpath(path, ROOT)}",
            }
            with open(path, "w") as f:
                f.write(jdump(rep))
            ok = True
            if v.get("case") is not None:
                ok = confirm(v)
            if ok is None:
                vanished.append(v)
                continue
            if ok == "unstable":
                unstable += 1
            confirmed.append((v, path))
        if not confirmed:
            print(f"HARNESS-ERROR none of {len(vanished)} violation(s) reproducible on replay; first: {vid(vanished[0])[:300]}")
            return 2

    wall = time.time() - t0
    cov = {
        "states": int(agg["states"]),
        "transitions": int(agg["trans"]),
        "traces_validated_against_impl": int(
            extra.pop("traces_validated_against_impl", agg["trans"])
        ),
        "samples": samples[:MAX_SAMPLES] or [keys[0]],
        "evaluations": int(agg["n"]),
        "distinct_nontrivial": len(nontrivial),
        "rule": _MOD.RULE,
        "exhaustive": not stopped_early[0],
        "cases": len(keys),
        "cases_completed": done,
        "bound": _MOD.BOUND.get(tier, ""),
        "clauses_evaluated": agg["clauses"],
        "distinct_outcomes": len(outcomes),
        "notes": agg["notes"],
        "alphabets": getattr(_MOD, "ALPHABETS", lambda: {})(),
        "determinism_selftest": det,
        "known_findings_hit": {fid: cnt for fid, (e, cnt) in known_hit.items()},
        "fresh_violations": len(fresh),
        "warmup_s": round(t_warm, 1),
        "warmup_error": warm_error,
        "pydrex_source": os.path.dirname(sys.modules["pydrex"].__file__) if "pydrex" in sys.modules else "?",
    }
    cov.update(extra)
    ev = {
        "property_id": pid,
        "tier": tier,
        "seed": seed,
        "level": "model_checking",
        "coverage": cov,
        "assumptions": list(_MOD.ASSUMPTIONS),
        "wall_s": round(wall, 2),
        "violations": len(fresh),
    }
    os.makedirs(os.path.join(OUT, "evidence"), exist_ok=True)
    with open(os.path.join(OUT, "evidence", pid + ".json"), "w") as f:
        json.dump(ev, f, indent=1, sort_keys=True, default=_jdefault)
        f.write("\n")

    if stopped_early[0]:
        print(f"stopped dispatching after {len(fresh_seen)} distinct fresh violations ({done} of {len(keys)} cases completed)")
    print(
        f"{pid} tier={tier} seed={seed} cases={len(keys)} states={agg['states']} "
        f"transitions={agg['trans']} impl_calls={agg['n']} nontrivial={len(nontrivial)} "
        f"outcomes={len(outcomes)} known={sum(c for _, c in known_hit.values())} "
        f"fresh={len(fresh)} wall={wall:.1f}s"
    )
    for c, k in sorted(agg["clauses"].items()):
        print(f"  clause {c}: {k}")
    for c, k in sorted(agg["notes"].items()):
        print(f"  note {c}: {k}")
    try:
        import shutil

        shutil.rmtree(work, ignore_errors=True)
    except Exception:
        pass
    if fresh:
        by_clause = {}
        for v in fresh:
            by_clause[v["clause"]] = by_clause.get(v["clause"], 0) + 1
        print("fresh violations by clause: " + jdump(by_clause))
        if vanished or unstable:
            print(f"replay: {len(confirmed)} confirmed ({unstable} with run-to-run varying observations), {len(vanished)} did not recur")
        for v, path in confirmed:
            print(f"  {v['clause']} {jdump(v['key'])[:240]} :: {jdump(v.get('detail'))[:300]}")
        for v, path in confirmed:
            print(f"VIOLATION property={pid} replay={path}")
        return 1
    return 0


def _run_twice(key):
    out = []
    for _ in range(2):
        r = _MOD.run_case(key)
        out.append((r["obs"], [(w["clause"], jdump(w["key"]), w.get("detail")) for w in r["viol"]]))
    return out


def confirm(v):
    """Re-run the violating case twice in a forked child (the case may kill the
    interpreter); the same violation (same clause and key) must appear both times with the
    same observation digest."""
    from mc import pool as cpool

    if v["clause"] == "process_died":
        r = cpool.run_isolated(_run_twice, v["case"])
        return True if isinstance(r, cpool.Died) else None
    r = cpool.run_isolated(_run_twice, v["case"])
    if isinstance(r, cpool.Died):
        return None
    for obs, vs in r:
        if not any(c == v["clause"] and k == jdump(v["key"]) for c, k, _ in vs):
            return None
    # the violation recurred in both replays; differing digests mean that OTHER outputs of
    # the case vary from run to run (e.g. an implementation reading uninitialised memory
    # after it produced NaN): still a violation, flagged as unstable
    return True if r[0][0] == r[1][0] else "unstable"


def do_replay(pid, rep):
    from mc import pool as cpool

    try:
        _MOD.warmup()
    except Exception:
        pass
    quiet_pydrex()
    if rep.get("case") is None:
        print("replay file has no case (cross-case finalize violation); re-run the check")
        return 2
    r = cpool.run_isolated(_run_twice, rep["case"])
    if isinstance(r, cpool.Died):
        if rep["clause"] == "process_died":
            print("replayed: the interpreter dies while running this case (" + r.describe() + ")")
            print(f"VIOLATION property={pid} replay={rep.get('replay', '').split()[-1]}")
            return 1
        print("HARNESS-ERROR replay child died")
        return 2
    if r[0][0] != r[1][0]:
        print("HARNESS-ERROR replay observations differ between two runs")
        return 2
    hit = [d for c, k, d in r[0][1] if c == rep["clause"] and k == jdump(rep["vkey"])]
    if hit:
        print(f"replayed: {rep['clause']} {jdump(rep['vkey'])}")
        print("detail: " + jdump(hit[0])[:2000])
        print(f"VIOLATION property={pid} replay={rep.get('replay', '').split()[-1]}")
        return 1
    print("replay: violation no longer occurs")
    return 0


if __name__ == "__main__":
    try:
        rc = main()
    except SystemExit:
        raise
    except BaseException:  # never exit 1 (= "violation") because the harness itself broke
        traceback.print_exc()
        print("HARNESS-ERROR uncaught exception in the runner", flush=True)
        rc = 2
    sys.exit(rc)
