"""Shared finite alphabets (DESIGN.md 1.7).  Every letter has a stable name; the case keys
hold names only, so a replay file identifies a case completely (together with the seed)."""

from __future__ import annotations

import itertools

import numpy as np

SEED = 0
TIER = "quick"


def configure(seed, tier):
    global SEED, TIER
    # any integer is accepted as VERIF_SEED; it is folded so that every derived
    # random_state stays inside what numpy / scipy accept (< 2**32)
    SEED, TIER = int(seed) % 1000003, tier
    _build()


# ------------------------------------------------------------------ rotations


def rot_axis(axis, angle):
    axis = np.asarray(axis, float)
    axis = axis / np.linalg.norm(axis)
    K = np.array([[0, -axis[2], axis[1]], [axis[2], 0, -axis[0]], [-axis[1], axis[0], 0]])
    return np.eye(3) + np.sin(angle) * K + (1 - np.cos(angle)) * (K @ K)


def rot_zyx(a, b, c):
    return rot_axis([0, 0, 1], a) @ rot_axis([0, 1, 0], b) @ rot_axis([1, 0, 0], c)


def cube_group():
    """The 24 proper signed permutation matrices, by closure (BFS) over two generators.
    Returns (list of matrices, number of generator applications)."""
    g1 = np.array([[0, -1, 0], [1, 0, 0], [0, 0, 1]], float)  # 90 deg about z
    g2 = np.array([[1, 0, 0], [0, 0, -1], [0, 1, 0]], float)  # 90 deg about x
    seen = {tuple(np.eye(3).ravel()): np.eye(3)}
    frontier = [np.eye(3)]
    apps = 0
    while frontier:
        nxt = []
        for m in frontier:
            for g in (g1, g2):
                apps += 1
                p = g @ m
                k = tuple(p.ravel())
                if k not in seen:
                    seen[k] = p
                    nxt.append(p)
        frontier = nxt
    mats = [seen[k] for k in sorted(seen, reverse=True)]
    # identity first (default letter)
    mats.sort(key=lambda m: (not np.array_equal(m, np.eye(3)), tuple(-m.ravel())))
    return mats, apps


TWOFOLDS = {
    "I": np.eye(3),
    "2a": np.diag([1.0, -1.0, -1.0]),
    "2b": np.diag([-1.0, 1.0, -1.0]),
    "2c": np.diag([-1.0, -1.0, 1.0]),
}

CUBE = {}
GEN = {}
NEAR = {}
ORI = {}  # orientation alphabet (name -> 3x3)
FRAME = {}  # frame rotations Q
VG = {}  # velocity gradients (unnormalised)
CLOSURE_APPS = 0


def _build():
    global CLOSURE_APPS
    CUBE.clear(), GEN.clear(), NEAR.clear(), ORI.clear(), FRAME.clear(), VG.clear()
    mats, CLOSURE_APPS = cube_group()
    for i, m in enumerate(mats):
        CUBE[f"cube{i:02d}"] = m
    rng = np.random.default_rng(1000 + SEED)
    GEN["g0"] = rot_zyx(0.7312, 1.1934, 2.4151)
    GEN["g1"] = rot_zyx(2.9017, 0.3719, 5.0233)
    nseed = 1 if TIER == "quick" else 4
    for i in range(nseed):
        a, b, c = rng.uniform(0.05, 2 * np.pi - 0.05, 3)
        GEN[f"gs{i}"] = rot_zyx(a, b, c)
    d = np.array([1.0, 1.0, 1.0])
    NEAR["n1e-7"] = rot_axis(d, 1e-7)
    NEAR["n1e-3"] = rot_axis(d, 1e-3)
    # orientation alphabet: CUBE  u  { s . g . c }
    for k, m in CUBE.items():
        ORI[k] = m
    gn = dict(GEN)
    gn.update(NEAR)
    if TIER == "quick":
        gn.pop("g1")  # |GEN u NEAR| = 4 in the quick tier
    for (sn, s), (gname, g), (cn, c) in itertools.product(TWOFOLDS.items(), gn.items(), CUBE.items()):
        ORI[f"{sn}.{gname}.{cn}"] = s @ g @ c
    for k, m in CUBE.items():
        FRAME[k] = m
    for k, m in GEN.items():
        FRAME[k] = m
    _build_vg(rng)


def _build_vg(rng):
    e = np.eye(3)
    ax = "xyz"
    # default first: simple shear x-z (the frame the test-suite uses)
    order = [(0, 2), (0, 1), (1, 0), (1, 2), (2, 0), (2, 1)]
    for i, j in order:
        VG[f"ss_{ax[i]}{ax[j]}"] = 2.0 * np.outer(e[i], e[j])
    for i, j in [(0, 1), (0, 2), (1, 2)]:
        for s in (1, -1):
            m = np.zeros((3, 3))
            m[i, i], m[j, j] = s, -s
            VG[f"ps_{ax[i]}{ax[j]}{'+' if s > 0 else '-'}"] = m
    for i in range(3):
        for s in (1, -1):
            m = -0.5 * s * np.eye(3)
            m[i, i] = s
            VG[f"ax_{ax[i]}{'+' if s > 0 else '-'}"] = m
    for i, j in order:
        VG[f"sub_{ax[i]}{ax[j]}"] = 2.0 * (np.outer(e[i], e[j]) - 0.5 * np.outer(e[j], e[i]))
    for i, j in [(0, 1), (0, 2), (1, 2)]:
        m = np.zeros((3, 3))
        m[i, j], m[j, i] = 1.0, -1.0
        VG[f"rigid_{ax[i]}{ax[j]}"] = m
    g = np.array([[0.31, 0.92, -0.44], [-0.18, 0.27, 0.73], [0.56, -0.35, -0.58]])
    VG["gen0"] = g
    s = rng.uniform(-1, 1, (3, 3))
    s -= np.trace(s) / 3 * np.eye(3)
    VG["gens"] = s
    VG["gen0_tr"] = g + 0.3 * np.eye(3)
    VG["gens_tr"] = s + 0.3 * np.eye(3)
    conj = list(CUBE.items())[1:]
    if TIER == "quick":
        conj = [conj[2], conj[9], conj[17]]
    for base in ("gen0", "gens", "gen0_tr", "gens_tr"):
        for cn, c in conj:
            VG[f"{base}@{cn}"] = c @ VG[base] @ c.T


def normalised(L):
    """(L, D) divided by the largest |principal strain rate| (D = 0 -> returned as is)."""
    D = (L + L.T) / 2
    m = np.abs(np.linalg.eigvalsh(D)).max()
    if m == 0:
        return L.copy(), D
    return L / m, D / m


# ------------------------------------------------------------------ phases / fabrics

FABRICS = {
    "olA": (0, 0),
    "olB": (0, 1),
    "olC": (0, 2),
    "olD": (0, 3),
    "olE": (0, 4),
    "enAB": (1, 5),
}
DISL = {"disl": 4, "yield": 6}

PARAMS = {  # default first
    "p": [1.5, 1.0, 2.0],
    "n": [3.5, 2.0, 5.0],
    "lam": [5.0, 0.0, 10.0],
    "M": [125.0, 0.0, 10.0, 200.0],
    "phi": [1.0, 0.7, 0.3, 1e-3],
}


def param_settings(max_dev, full=False):
    """All settings with at most max_dev axes off their default (or the full product).
    Returns list of (name, dict)."""
    names = list(PARAMS)
    out = []
    if full:
        for combo in itertools.product(*[range(len(PARAMS[k])) for k in names]):
            out.append(combo)
    else:
        for ndev in range(max_dev + 1):
            for axes in itertools.combinations(range(len(names)), ndev):
                for vals in itertools.product(*[range(1, len(PARAMS[names[a]])) for a in axes]):
                    combo = [0] * len(names)
                    for a, v in zip(axes, vals):
                        combo[a] = v
                    out.append(tuple(combo))
    res = []
    for combo in out:
        d = {k: PARAMS[k][i] for k, i in zip(names, combo)}
        res.append(("".join(f"{k}{i}" for k, i in zip(names, combo)), d))
    return res


def param_by_name(name):
    import re

    d = {}
    for k, i in re.findall(r"([a-zA-Z]+)(\d+)", name):
        d[k] = PARAMS[k][int(i)]
    return d


# ------------------------------------------------------------------ volume vectors


def volumes(name, n):
    """Named volume vectors on the simplex (n grains)."""
    if name == "uniform":
        return np.full(n, 1.0 / n)
    if name == "dominant":
        if n == 1:
            return np.ones(1)
        v = np.full(n, 0.1 / (n - 1))
        v[n // 2] = 0.9
        return v
    if name == "geometric":
        v = 0.5 ** np.arange(n)
        return v / v.sum()
    if name == "onezero":
        if n == 1:
            return np.ones(1)
        v = np.full(n, 1.0 / (n - 1))
        v[0] = 0.0
        return v
    if name == "allbutone":
        v = np.zeros(n)
        v[-1] = 1.0
        return v
    if name == "sparse":
        # every third grain (1, 4, 7, ...) has exactly zero volume: vanished grains that FOLLOW
        # grains of positive volume (seed C03h: loop-carried state inherited by skipped grains)
        if n == 1:
            return np.ones(1)
        v = np.arange(1.0, n + 1.0)
        v[1::3] = 0.0
        return v / v.sum()
    if name == "onehot_i64":
        # one grain holds the whole volume, typed with integer literals (an int64 ndarray)
        v = np.zeros(n, dtype=np.int64)
        v[-1] = 1
        return v
    if name == "dup":
        v = np.array([1.0, 2.0] * (n // 2 + 1))[:n]
        return v / v.sum()
    if name == "dirichlet":
        rng = np.random.default_rng(77 + SEED + n)
        v = rng.dirichlet(np.full(n, 0.5))
        return v / v.sum()
    raise KeyError(name)


# ------------------------------------------------------------------ textures


def texture(name, n):
    """Named orientation sets for histories (n grains), shape (n,3,3)."""
    from scipy.spatial.transform import Rotation

    if name == "random":
        return Rotation.random(n, random_state=4242 + SEED + n).as_matrix()
    if name == "random2":
        return Rotation.random(n, random_state=99 + 7 * SEED + n).as_matrix()
    if name == "cluster":
        rng = np.random.default_rng(5 + SEED + n)
        base = GEN["g0"]
        return np.array(
            [rot_axis(rng.normal(size=3), rng.normal(0, 0.15)) @ base for _ in range(n)]
        )
    if name == "girdle":
        rng = np.random.default_rng(6 + SEED + n)
        return np.array(
            [rot_axis([1, 0, 0], rng.uniform(0, 2 * np.pi)) @ rot_axis(rng.normal(size=3), rng.normal(0, 0.05)) for _ in range(n)]
        )
    if name == "single":
        return np.repeat(GEN["g0"][None], n, axis=0).copy()
    if name == "aligned":
        ms = list(CUBE.values())
        return np.array([ms[i % 24] for i in range(n)])
    if name == "random_fortran":
        # the "random" texture in Fortran memory order (as read from MATLAB / Fortran output)
        return np.asfortranarray(texture("random", n))
    if name == "random_tview":
        # the "random" texture handed over as a transposed VIEW of the stack of its transposes
        return np.ascontiguousarray(texture("random", n).transpose(0, 2, 1)).transpose(0, 2, 1)
    if name == "aligned_i64":
        # the same axis-aligned texture typed with integer literals (an int64 ndarray)
        return np.rint(texture("aligned", n)).astype(np.int64)
    raise KeyError(name)


_build()
