"""setup_cmd: self-test of the explorers (nothing is built or cached)."""
import sys

from mc import alph


def main():
    alph.configure(0, "quick")
    assert len(alph.CUBE) == 24 and len(alph.ORI) == 408, (len(alph.CUBE), len(alph.ORI))
    import numpy as np

    for m in alph.ORI.values():
        assert abs(np.linalg.det(m) - 1) < 1e-12 and np.abs(m @ m.T - np.eye(3)).max() < 1e-12
    import pydrex  # noqa: F401

    print("selftest ok: alphabets consistent, pydrex importable from", pydrex.__file__)
    return 0


if __name__ == "__main__":
    sys.exit(main())
