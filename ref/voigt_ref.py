"""Reference model for C10: the Voigt average as a plain sum of rotated 4th-order tensors.

Independent of pydrex.tensors (own Voigt index map, numpy einsum for the rotation).

Conventions.  An orientation matrix A has the crystal axes as ROWS, expressed in the
external frame.  A single-crystal stiffness c (given in the crystal frame) expressed in the
external frame is therefore

    C_ijkl = A_pi A_qj A_rk A_sl c_pqrs            (rotation of c by A^T).

average[k] = sum over minerals m, grains g of
             phi_{phase(m)} * f_{m,k,g} * external(c_{phase(m)}, A_{m,k,g})

phi is looked up BY PHASE in (phase_assemblage, phase_fractions) and c BY PHASE in the
mapping `stiff` {phase ordinal -> 6x6}.
"""

import numpy as np

# Voigt index -> tensor index pair: 11 22 33 23 13 12
PAIRS = ((0, 0), (1, 1), (2, 2), (1, 2), (0, 2), (0, 1))
VIDX = np.empty((3, 3), dtype=int)
for _a, (_i, _j) in enumerate(PAIRS):
    VIDX[_i, _j] = _a
    VIDX[_j, _i] = _a


def to_tensor(c6):
    """6x6 Voigt matrix -> 3x3x3x3 tensor (no factors: stiffness convention)."""
    c6 = np.asarray(c6, dtype=float)
    return c6[VIDX[:, :, None, None], VIDX[None, None, :, :]]


def to_voigt(t):
    """3x3x3x3 tensor with minor symmetries -> 6x6 (one representative per pair)."""
    out = np.empty((6, 6))
    for a, (i, j) in enumerate(PAIRS):
        for b, (k, l) in enumerate(PAIRS):
            out[a, b] = t[i, j, k, l]
    return out


def rotate(t, q):
    """T'_ijkl = Q_ia Q_jb Q_kc Q_ld T_abcd."""
    return np.einsum("ia,jb,kc,ld,abcd->ijkl", q, q, q, q, t)


def rotate6(c6, q):
    return to_voigt(rotate(to_tensor(c6), np.asarray(q, dtype=float)))


def external(c6, A):
    """Single-crystal 6x6 `c6` of a grain with orientation A (rows = crystal axes),
    expressed in the external frame."""
    A = np.asarray(A, dtype=float)
    return to_voigt(np.einsum("pi,qj,rk,sl,pqrs->ijkl", A, A, A, A, to_tensor(c6)))


def voigt_moduli(c6):
    """(K_V, G_V): the two linear isotropic invariants of a stiffness matrix."""
    c6 = np.asarray(c6, dtype=float)
    d = c6[0, 0] + c6[1, 1] + c6[2, 2]
    o = c6[0, 1] + c6[0, 2] + c6[1, 2]
    s = c6[3, 3] + c6[4, 4] + c6[5, 5]
    return (d + 2.0 * o) / 9.0, (d - o + 3.0 * s) / 15.0


def average(minerals, assemblage, fractions, stiff, lookup="phase"):
    """minerals: list of (phase ordinal, [f_k (n,)], [A_k (n,3,3)]), one entry per mineral.
    assemblage: list of phase ordinals; fractions: list of floats (same order);
    stiff: {phase ordinal: 6x6}.

    lookup="phase"     the property: stiffness of a mineral chosen by its phase.
    lookup="position"  a characterised WRONG form: the stiffnesses are listed in
                       phase-ordinal order and the entry is picked by the POSITION of the
                       mineral's phase in `assemblage` (phi still by phase)."""
    assemblage = [int(p) for p in assemblage]
    ordinal = [stiff[p] for p in sorted(stiff)]
    n_steps = len(minerals[0][2])
    out = np.zeros((n_steps, 6, 6))
    for k in range(n_steps):
        for phase, fs, As in minerals:
            pos = assemblage.index(int(phase))
            phi = float(fractions[pos])
            if lookup == "phase":
                c = stiff[int(phase)]
            elif lookup == "position":
                c = ordinal[pos]
            else:
                raise KeyError(lookup)
            for g in range(len(fs[k])):
                out[k] += phi * float(fs[k][g]) * external(c, As[k][g])
    return out


def moduli_expected(assemblage, fractions, stiff):
    """phi-weighted single-crystal Voigt moduli (K, G)."""
    K = G = 0.0
    for p, phi in zip(assemblage, fractions):
        k, g = voigt_moduli(stiff[int(p)])
        K += float(phi) * k
        G += float(phi) * g
    return K, G
