"""Reference model of an SCSV file for C16: a list of typed rows plus the function that
computes the expected read-back.  Plain Python, no pydrex, no YAML, no csv: the model knows
nothing about the on-disk syntax, only what the property statement says about the values.

    ref = RefFile(); ref.save(schema, columns)     # RefError if the statement says "refused"
    names, columns = ref.read()                    # what read_scsv must return
    ref.missing_mask()                             # which cells must be the missing marker on disk
"""

import math

TYPES = ("string", "integer", "float", "boolean", "complex")
PYTYPE = {"string": str, "integer": int, "float": float, "boolean": bool, "complex": complex}
NUMERIC = ("integer", "float", "complex")
DEFAULT_TYPE = "string"
DEFAULT_FILL = ""
# str.splitlines() boundaries: a cell containing any of these is outside the statement's domain
LINE_BREAKS = "\n\r\x0b\x0c\x1c\x1d\x1e\x85\u2028\u2029"


class RefError(Exception):
    """The statement says this schema / data set must be refused."""


# ---------------------------------------------------------------- value semantics


def _feq(a, b):
    """Float equality in which NaN equals NaN (and -0.0 equals 0.0, as for ==)."""
    return a == b or (math.isnan(a) and math.isnan(b))


def _fsame(a, b):
    """Exactly the same float: NaN ~ NaN, otherwise equal value and equal sign bit."""
    if math.isnan(a) or math.isnan(b):
        return math.isnan(a) and math.isnan(b)
    return a == b and math.copysign(1.0, a) == math.copysign(1.0, b)


def canonical(ftype, cell):
    """The typed Python value a cell stands for (numpy scalars -> Python scalars)."""
    if ftype == "string":
        return str(cell)
    if ftype == "integer":
        return int(cell)
    if ftype == "float":
        return float(cell)
    if ftype == "boolean":
        return bool(cell)
    if ftype == "complex":
        return complex(cell)
    raise RefError(f"unknown type {ftype}")


def typed_fill(field):
    """The value a missing cell of this field must be read back as."""
    ftype = field.get("type", DEFAULT_TYPE)
    raw = field.get("fill", DEFAULT_FILL)
    if ftype == "string":
        return str(raw)
    if ftype == "integer":
        return int(raw)
    if ftype == "float":
        return float("nan") if isinstance(raw, str) and raw == "NaN" else float(raw)
    if ftype == "complex":
        # documented: 'NaN' means NaN real part, zero imaginary part
        return complex(float("nan"), 0.0) if isinstance(raw, str) and raw == "NaN" else complex(raw)
    if ftype == "boolean":
        return None  # documented: boolean columns cannot have missing values
    raise RefError(f"unknown type {ftype}")


def equals_fill(ftype, cell, fill):
    """'cell equal to the field's fill value' (== ; NaN counts as equal to NaN, per component)."""
    if fill is None or ftype == "boolean":
        return False
    if ftype == "float":
        return _feq(cell, fill)
    if ftype == "complex":
        return _feq(cell.real, fill.real) and _feq(cell.imag, fill.imag)
    return cell == fill


def same_value(ftype, got, want):
    """'exactly the same typed value': exact Python type, exact value, NaN ~ NaN, sign of zero kept."""
    if type(got) is not PYTYPE[ftype]:
        return False
    if ftype == "float":
        return _fsame(got, want)
    if ftype == "complex":
        return _fsame(got.real, want.real) and _fsame(got.imag, want.imag)
    return got == want


def representable(ftype, cell, missing):
    """The statement's representable domain."""
    if ftype == "string":
        if not isinstance(cell, str):
            return False
        if cell != cell.strip():
            return False
        if any(ch in LINE_BREAKS for ch in cell):
            return False
        return cell != missing
    if ftype == "integer":
        return isinstance(cell, int) and not isinstance(cell, bool)
    if ftype == "float":
        return isinstance(cell, float)
    if ftype == "boolean":
        return isinstance(cell, bool)
    if ftype == "complex":
        return isinstance(cell, complex)
    return False


def parseable(ftype, cell):
    """'cell parseable as its declared type' (textual form accepted by the Python constructor;
    every string is a string, every token is a boolean: only the listed words are true)."""
    if ftype in ("string", "boolean"):
        return True
    try:
        PYTYPE[ftype](str(cell).strip())
        return True
    except (ValueError, TypeError, OverflowError):
        return False


# ---------------------------------------------------------------- validation (the statement's list)


def validate_schema(schema):
    for k in ("delimiter", "missing", "fields"):
        if k not in schema:
            raise RefError(f"missing key {k}")
    d, m, fields = schema["delimiter"], schema["missing"], schema["fields"]
    if not isinstance(d, str) or len(d) != 1:
        raise RefError("delimiter must be a single character")
    if not isinstance(m, str):
        raise RefError("missing marker must be a string")
    if d == m or d in m:
        raise RefError("delimiter equal to or contained in the missing marker")
    if not fields:
        raise RefError("no fields")
    for f in fields:
        if "name" not in f:
            raise RefError("field without a name")
        if not isinstance(f["name"], str) or not f["name"].isidentifier():
            raise RefError("field name is not an identifier")
        t = f.get("type", DEFAULT_TYPE)
        if t not in TYPES:
            raise RefError(f"unknown type {t}")
        if t in NUMERIC and "fill" not in f:
            raise RefError("numeric field without fill")


def validate_data(schema, columns):
    fields = schema["fields"]
    if len(columns) != len(fields):
        raise RefError("wrong column count")
    n = {len(c) for c in columns}
    if len(n) > 1:
        raise RefError("unequal column lengths")
    m = schema["missing"]
    for f, col in zip(fields, columns):
        t = f.get("type", DEFAULT_TYPE)
        for cell in col:
            if isinstance(cell, str) and cell.strip() == m:
                continue  # an explicit missing marker is always acceptable
            if not parseable(t, cell):
                raise RefError(f"cell {cell!r} not parseable as {t}")


# ---------------------------------------------------------------- the model


class RefFile:
    """State of one SCSV file: field names, types, typed fills and the list of typed rows."""

    def __init__(self):
        self.names = None
        self.types = None
        self.fills = None
        self.missing = None
        self.rows = None

    def save(self, schema, columns):
        validate_schema(schema)
        validate_data(schema, columns)
        fields = schema["fields"]
        self.names = [f["name"] for f in fields]
        self.types = [f.get("type", DEFAULT_TYPE) for f in fields]
        self.fills = [typed_fill(f) for f in fields]
        self.missing = schema["missing"]
        cols = [[canonical(t, c) for c in col] for t, col in zip(self.types, columns)]
        self.rows = [tuple(r) for r in zip(*cols)]
        return self

    def is_fill(self, r, j):
        return equals_fill(self.types[j], self.rows[r][j], self.fills[j])

    def missing_mask(self):
        """rows x columns of booleans: True where the file must hold the missing marker.
        None for boolean columns (no claim: they 'cannot have missing values')."""
        return [
            tuple(None if self.types[j] == "boolean" else self.is_fill(r, j) for j in range(len(self.names)))
            for r in range(len(self.rows))
        ]

    def read(self):
        """Expected read-back: names in order, columns of typed values, fill where cell == fill."""
        cols = []
        for j in range(len(self.names)):
            cols.append(tuple(self.fills[j] if self.is_fill(r, j) else self.rows[r][j] for r in range(len(self.rows))))
        return list(self.names), cols


def expected_readback(schema, columns):
    return RefFile().save(schema, columns).read()


def expand_terse(delim, missing, specs):
    """Expected expansion of a terse schema (docstring of parse_scsv_schema): specs is a list of
    (name, type or None, fill text or None, unit text or None)."""
    fields = []
    for name, ftype, fill, unit in specs:
        f = {"name": name, "type": ftype or DEFAULT_TYPE, "fill": fill if fill is not None else DEFAULT_FILL}
        if unit is not None:
            f["unit"] = unit
        fields.append(f)
    return {"delimiter": delim, "missing": missing, "fields": fields}
