"""Reference model of the D-Rex rate equations, written from the papers (Kaminski & Ribe
2001 eqs 5-9; Kaminski, Ribe & Browaeys 2004 eqs 10-13; Fraters & Billen 2021 eqs 3-4,
14-16 and their supplement S1), in tensor form, not from the loops in pydrex.core.

Conventions: rows of the orientation matrix A are the crystal axes a, b, c expressed in
the external frame.  Slip systems in the documented order
    0 (010)[100]   1 (001)[100]   2 (010)[001]   3 (100)[001]
each with slip direction l (a crystal axis) and plane normal n (a crystal axis).
"""

import numpy as np

# (direction axis, normal axis) per slip system, as crystal-axis indices
SYSTEMS = ((0, 1), (0, 2), (2, 1), (2, 0))

INF = np.inf
CRSS = {
    (0, 0): np.array([1.0, 2.0, 3.0, INF]),  # olivine A
    (0, 1): np.array([3.0, 2.0, 1.0, INF]),  # olivine B
    (0, 2): np.array([3.0, 2.0, INF, 1.0]),  # olivine C
    (0, 3): np.array([1.0, 1.0, 3.0, INF]),  # olivine D
    (0, 4): np.array([3.0, 1.0, 2.0, INF]),  # olivine E
    (1, 5): np.array([INF, INF, INF, 1.0]),  # enstatite AB
}
YIELD_FACTOR = 0.3


def invariants(A, D):
    """I_s = l_i n_j D_ij for the four systems; A (n,3,3) -> (n,4)."""
    out = np.empty((A.shape[0], 4))
    for s, (dl, dn) in enumerate(SYSTEMS):
        out[:, s] = np.einsum("gi,ij,gj->g", A[:, dl, :], D, A[:, dn, :])
    return out


def activity(phase, fabric, A, D):
    """max_s |I_s / tau_s| per grain (the quantity C02's exclusion zone is stated in)."""
    tau = CRSS[(phase, fabric)]
    return np.abs(invariants(A, D) / tau).max(axis=1)


def rates(phase, fabric, regime, A, f, D, L, p, n, lam, M, phi, energy_systems=(0, 1, 2, 3)):
    """Return dict with orientation rates 'dA' (n,3,3), volume rates 'df' (n,), strain
    energies 'E', activity 'act', slip-rate 'gamma', and 'beta'."""
    tau = CRSS[(phase, fabric)]
    ng = A.shape[0]
    I = invariants(A, D)
    q = np.abs(I / tau)
    imax = np.argmax(q, axis=1)
    rows = np.arange(ng)
    Imax = I[rows, imax]
    tmax = tau[imax]
    with np.errstate(all="ignore"):
        ratio = (I / tau) * (tmax / Imax)[:, None]
        beta = np.sign(ratio) * np.abs(ratio) ** n
    beta[:, ~np.isfinite(tau)] = 0.0
    beta[rows, imax] = 1.0
    if phase == 1:  # enstatite: the single system slips at unit relative rate
        beta[:] = 0.0
        beta[:, 3] = 1.0
    # Schmid tensor G_ij = 2 sum_s beta_s l_i n_j
    G = np.zeros((ng, 3, 3))
    for s, (dl, dn) in enumerate(SYSTEMS):
        G += 2.0 * beta[:, s, None, None] * np.einsum("gi,gj->gij", A[:, dl, :], A[:, dn, :])
    SG = (G + np.transpose(G, (0, 2, 1))) / 2
    WG = (G - np.transpose(G, (0, 2, 1))) / 2
    DL = (L + L.T) / 2
    WL = (L - L.T) / 2
    # least-squares slip rate on the softest system: gamma = sym(G):D / sym(G):sym(G)
    with np.errstate(all="ignore"):
        gamma = np.einsum("gij,ij->g", SG, DL) / np.einsum("gij,gij->g", SG, SG)
    # lattice spin = antisymmetric part of (L - gamma G); crystal axes rotate with it
    W = WL[None] - gamma[:, None, None] * WG
    dA = np.einsum("gps,gqs->gpq", A, W)  # row p of dA = W . a_p
    # dislocation densities and strain energy
    with np.errstate(all="ignore"):
        rho = tau[None, :] ** (p - n) * np.abs(beta * gamma[:, None]) ** (p / n)
    rho[:, ~np.isfinite(tau)] = 0.0
    Es = rho * np.exp(-lam * rho**2)
    E = Es[:, list(energy_systems)].sum(axis=1)
    Emean = np.sum(f * E)
    df = phi * M * f * (Emean - E)
    if regime == 6:
        dA = YIELD_FACTOR * dA
        df = YIELD_FACTOR * df
    return {"dA": dA, "df": df, "E": E, "act": q.max(axis=1), "gamma": gamma, "beta": beta, "Es": Es}
