"""Reference formulas for C11 (pydrex.tensors), written from the Voigt convention and from
numpy only.  Nothing here imports pydrex.

Voigt convention (0-based):  11->0  22->1  33->2  23,32->3  13,31->4  12,21->5.
"""

from __future__ import annotations

import itertools

import numpy as np

# (p, q) -> Voigt index, written out literally (no arithmetic shared with the implementation)
VOIGT_OF_PAIR = {
    (0, 0): 0,
    (1, 1): 1,
    (2, 2): 2,
    (1, 2): 3,
    (2, 1): 3,
    (0, 2): 4,
    (2, 0): 4,
    (0, 1): 5,
    (1, 0): 5,
}
# Voigt index -> canonical (p, q)
PAIR_OF_VOIGT = [(0, 0), (1, 1), (2, 2), (1, 2), (0, 2), (0, 1)]

_IDX = np.array([[VOIGT_OF_PAIR[p, q] for q in range(3)] for p in range(3)])

TUPLES81 = list(itertools.product(range(3), repeat=4))
TUPLES36 = list(itertools.product(range(6), repeat=2))
SYM21 = [(i, j) for i in range(6) for j in range(i, 6)]  # upper triangle, row-major


def to_tensor(m):
    """C_pqrs = M[V(p,q), V(r,s)]."""
    m = np.asarray(m, float)
    return m[_IDX[:, :, None, None], _IDX[None, None, :, :]]


def to_voigt(t):
    """M_ij = C_{pair(i) pair(j)} (for tensors with the elastic symmetries)."""
    out = np.empty((6, 6))
    for i, j in TUPLES36:
        out[i, j] = t[PAIR_OF_VOIGT[i] + PAIR_OF_VOIGT[j]]
    return out


def frob(t):
    return float(np.sqrt(np.einsum("pqrs,pqrs->", t, t)))


def rotate(t, r):
    """C'_ijkl = R_ip R_jq R_kr R_ls C_pqrs."""
    return np.einsum("ip,jq,kr,ls,pqrs->ijkl", r, r, r, r, t, optimize=True)


def rotate_many(t, rs):
    """The same for a stack of rotations (n,3,3) -> (n,3,3,3,3)."""
    x = np.einsum("nls,pqrs->npqrl", rs, t)
    x = np.einsum("nkr,npqrl->npqkl", rs, x)
    x = np.einsum("njq,npqkl->npjkl", rs, x)
    return np.einsum("nip,npjkl->nijkl", rs, x)


def dilatational(t):
    return np.einsum("ijkk->ij", t)


def deviatoric(t):
    """Voigt contraction v_ij = C_ikjk (Browaeys & Chevrot 2004, eq. 3.5)."""
    return np.einsum("ikjk->ij", t)


def symmetry_defects(t):
    """max |C_pqrs - C_qprs|, |C_pqrs - C_pqsr|, |C_pqrs - C_rspq|."""
    return (
        float(np.abs(t - t.transpose(1, 0, 2, 3)).max()),
        float(np.abs(t - t.transpose(0, 1, 3, 2)).max()),
        float(np.abs(t - t.transpose(2, 3, 0, 1)).max()),
    )


def unit_sym(i, j):
    m = np.zeros((6, 6))
    m[i, j] = 1.0
    m[j, i] = 1.0
    return m


def symmetrised_unit_tensor(p, q, r, s):
    """0/1 indicator of the orbit of (p,q,r,s) under the minor and major index symmetries."""
    t = np.zeros((3, 3, 3, 3))
    for a, b in ((p, q), (q, p)):
        for c, d in ((r, s), (s, r)):
            t[a, b, c, d] = 1.0
            t[c, d, a, b] = 1.0
    return t


def _rz(angle):
    c, s = np.cos(angle), np.sin(angle)
    return np.array([[c, -s, 0.0], [s, c, 0.0], [0.0, 0.0, 1.0]])


def _closure(gens):
    els = [np.eye(3)]
    frontier = [np.eye(3)]
    while frontier:
        nxt = []
        for m in frontier:
            for g in gens:
                p = g @ m
                if not any(np.abs(p - e).max() < 1e-9 for e in els):
                    els.append(p)
                    nxt.append(p)
        frontier = nxt
    return els


def point_groups():
    """Rotation groups (unique axis z) whose fixed spaces are the symmetry classes:
    monoclinic C2, orthorhombic D2, tetragonal D4 (6 constants), hexagonal/TI D12 (for a
    4th-order tensor any n-fold axis with n >= 5 is equivalent to a continuous axis)."""
    c2z = np.diag([-1.0, -1.0, 1.0])
    c2x = np.diag([1.0, -1.0, -1.0])
    return {
        "mono": _closure([c2z]),
        "ortho": _closure([c2z, c2x]),
        "tetr": _closure([_rz(np.pi / 2), c2x]),
        "hex": _closure([_rz(np.pi / 6), c2x]),
    }


def group_average(t, group):
    return rotate_many(t, np.array(group)).mean(axis=0)


def elementary_symmetric(eig):
    l0, l1, l2 = eig
    return (l0 + l1 + l2, l0 * l1 + l1 * l2 + l2 * l0, l0 * l1 * l2)
