"""Reference elasticity helpers for C12 (plain numpy, independent of pydrex.tensors).

Everything here works on the full 3x3x3x3 tensor with einsum; the 6x6 Voigt matrix is only
an input / output format (own index table, no pydrex function is called).

Conventions
* Voigt pairs: 0:(0,0) 1:(1,1) 2:(2,2) 3:(1,2) 4:(0,2) 5:(0,1); the 6x6 matrix holds the
  plain tensor components (stiffness convention, no factors).
* "Tensor expressed in a frame rotated by Q": C'_ijkl = Q_ia Q_jb Q_kc Q_ld C_abcd.  An
  eigenvector e of a contraction of C becomes Q e.
* Grain orientation matrices `a` follow the pydrex convention (a[i, j] = cosine between grain
  axis i and external axis j), so the grain's tensor in the external frame is the
  single-crystal tensor rotated by a^T.
"""

import numpy as np

PAIRS = [(0, 0), (1, 1), (2, 2), (1, 2), (0, 2), (0, 1)]
_IDX = np.zeros((3, 3), int)
for _m, (_p, _q) in enumerate(PAIRS):
    _IDX[_p, _q] = _IDX[_q, _p] = _m
EYE = np.eye(3)


def to_tensor(m6):
    """6x6 Voigt stiffness matrix -> 3x3x3x3 tensor."""
    m6 = np.asarray(m6, float)
    return m6[_IDX[:, :, None, None], _IDX[None, None, :, :]]


def to_voigt(t4):
    """3x3x3x3 tensor (with the elastic symmetries) -> 6x6 Voigt matrix (symmetrised over
    the equivalent index positions so that rounding asymmetries do not leak)."""
    out = np.empty((6, 6))
    for m, (p, q) in enumerate(PAIRS):
        for n, (r, s) in enumerate(PAIRS):
            out[m, n] = (
                t4[p, q, r, s] + t4[q, p, r, s] + t4[p, q, s, r] + t4[q, p, s, r]
                + t4[r, s, p, q] + t4[s, r, p, q] + t4[r, s, q, p] + t4[s, r, q, p]
            ) / 8.0
    return out


def rotate4(t4, Q):
    """C'_ijkl = Q_ia Q_jb Q_kc Q_ld C_abcd (one index at a time)."""
    t = np.einsum("ia,abcd->ibcd", Q, t4)
    t = np.einsum("jb,ibcd->ijcd", Q, t)
    t = np.einsum("kc,ijcd->ijkd", Q, t)
    return np.einsum("ld,ijkd->ijkl", Q, t)


def voigt_average(m6, orientations, fractions=None):
    """Voigt (arithmetic) average of the single-crystal tensor m6 over grains."""
    a = np.asarray(orientations, float)
    n = len(a)
    f = np.full(n, 1.0 / n) if fractions is None else np.asarray(fractions, float)
    t4 = to_tensor(m6)
    # rotation by a^T : R = a^T, R_ia = a_ai
    return np.einsum("g,gai,gbj,gck,gdl,abcd->ijkl", f, a, a, a, a, t4, optimize=True)


def contractions(t4):
    """(d_ij = C_ijkk, v_ij = C_ikjk)."""
    return np.einsum("ijkk->ij", t4), np.einsum("ikjk->ij", t4)


def moduli(t4):
    """Isotropic (Voigt) invariants: K = C_iijj / 9, G = (3 C_ijij - C_iijj) / 30."""
    a = np.einsum("iijj->", t4)
    b = np.einsum("ijij->", t4)
    return a / 9.0, (3.0 * b - a) / 30.0


def iso_tensor(K, G):
    dd = np.einsum("ij,kl->ijkl", EYE, EYE)
    s = np.einsum("ik,jl->ijkl", EYE, EYE) + np.einsum("il,jk->ijkl", EYE, EYE)
    return (K - 2.0 * G / 3.0) * dd + G * s


def fnorm(t4):
    """Frobenius norm of the full tensor (= Euclidean norm of the 21-vector of Browaeys &
    Chevrot 2004, whose weights sqrt2, 2, 2*sqrt2 are exactly the multiplicities)."""
    return float(np.sqrt(np.einsum("ijkl,ijkl->", t4, t4)))


def percent_anisotropy(t4):
    K, G = moduli(t4)
    return 100.0 * fnorm(t4 - iso_tensor(K, G)) / fnorm(t4)


def _rot_axis(axis, angle):
    axis = np.asarray(axis, float)
    axis = axis / np.linalg.norm(axis)
    Kx = np.array([[0, -axis[2], axis[1]], [axis[2], 0, -axis[0]], [-axis[1], axis[0], 0]])
    return EYE + np.sin(angle) * Kx + (1 - np.cos(angle)) * (Kx @ Kx)


def ti_project(t4, axis, nfold=7):
    """Orthogonal projection onto the tensors that are transversely isotropic about `axis`
    = average over the rotation group about the axis.  A rank-4 tensor carries azimuthal
    harmonics |m| <= 4 only, so the mean over nfold >= 5 equally spaced angles is exact."""
    out = np.zeros((3, 3, 3, 3))
    for k in range(nfold):
        out += rotate4(t4, _rot_axis(axis, 2.0 * np.pi * k / nfold))
    return out / nfold


def hex_distance_and_part(t4, axis):
    """(||C - H_a C||, ||H_a C - C_iso||) for the symmetry axis a."""
    h = ti_project(t4, axis)
    K, G = moduli(t4)
    return fnorm(t4 - h), fnorm(h - iso_tensor(K, G))


def ortho_matrix(c11, c22, c33, c12, c13, c23, c44, c55, c66):
    m = np.zeros((6, 6))
    m[0, 0], m[1, 1], m[2, 2] = c11, c22, c33
    m[0, 1] = m[1, 0] = c12
    m[0, 2] = m[2, 0] = c13
    m[1, 2] = m[2, 1] = c23
    m[3, 3], m[4, 4], m[5, 5] = c44, c55, c66
    return m


def _angle(u, w):
    """Smallest angle (radians) between two bidirectional unit vectors."""
    return float(np.arccos(min(1.0, abs(float(u @ w)))))


def conditioning(t4):
    """Rotation-invariant conditioning numbers of the symmetry-axis search described by
    Browaeys & Chevrot (2004, section 3.2): the axes are built from the eigenvectors of d and
    v (each d eigenvector paired with the nearest v eigenvector), then the axis whose
    transversely isotropic approximation is closest is called the hexagonal axis.  Used for
    *gating only* (never for a verdict); nothing here looks at the implementation.

    gap_d, gap_v   smallest eigenvalue gap / Frobenius norm of the contraction
    pair_margin    min over d eigenvectors of (angle to 2nd nearest - angle to nearest v
                   eigenvector), radians; small = the pairing is ambiguous
    misalign       largest angle between a d eigenvector and its nearest v eigenvector
    tie            smallest pairwise difference of the candidate distances ||C - H_a C|| / ||C||
                   over the three candidate axes (d eigenvectors; also the d/v bisectors):
                   ~0 = two axes are equally good hexagonal axes, the choice is ambiguous
    dist           the three candidate distances for the d eigenvectors, relative to ||C||
    axes           the d eigenvectors (columns)
    """
    d, v = contractions(t4)
    wd, ed = np.linalg.eigh((d + d.T) / 2)
    wv, ev = np.linalg.eigh((v + v.T) / 2)
    gap_d = float(np.min(np.diff(wd)) / np.linalg.norm(d))
    gap_v = float(np.min(np.diff(wv)) / np.linalg.norm(v))
    pair_margin = np.inf
    misalign = 0.0
    bis = np.empty((3, 3))
    for i in range(3):
        ang = sorted((_angle(ed[:, i], ev[:, j]), j) for j in range(3))
        pair_margin = min(pair_margin, ang[1][0] - ang[0][0])
        misalign = max(misalign, ang[0][0])
        j = ang[0][1]
        s = 1.0 if ed[:, i] @ ev[:, j] >= 0 else -1.0
        b = ed[:, i] + s * ev[:, j]
        bis[:, i] = b / np.linalg.norm(b)
    nrm = fnorm(t4)
    dist_d = np.array([hex_distance_and_part(t4, ed[:, i])[0] for i in range(3)]) / nrm
    dist_b = np.array([hex_distance_and_part(t4, bis[:, i])[0] for i in range(3)]) / nrm
    tie = min(
        min(abs(x[i] - x[j]) for i in range(3) for j in range(i))
        for x in (dist_d, dist_b)
    )
    return {
        "gap_d": gap_d,
        "gap_v": gap_v,
        "pair_margin": float(pair_margin),
        "misalign": float(misalign),
        "tie": float(tie),
        "dist": dist_d,
        "axes": ed,
        "aniso_rel": fnorm(t4 - iso_tensor(*moduli(t4))) / nrm,
    }
